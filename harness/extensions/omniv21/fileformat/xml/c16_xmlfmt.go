package xml

import (
	"errors"
	"io"

	zz "github.com/jf-tech/omniparser/zzverif"
)

type zzFailReader struct {
	data   []byte
	pos    int
	failAt int
	ioErr  error
}

var zzIOErr = errors.New("disk on fire")

// zzWrapEOF: a source failure whose error chain contains io.EOF.
type zzWrapEOF struct{}

func (zzWrapEOF) Error() string { return "read failed: EOF" }
func (zzWrapEOF) Unwrap() error { return io.EOF }

var zzIOErrs = []error{zzIOErr, io.ErrUnexpectedEOF, zzWrapEOF{}}

func (r *zzFailReader) Read(p []byte) (int, error) {
	if r.pos >= r.failAt {
		return 0, r.ioErr
	}
	n := copy(p, r.data[r.pos:r.failAt])
	r.pos += n
	return n, nil
}

// C16XmlFormat: the XML format reader classifies a source failure as fatal (not continuable,
// not EOF), wherever in the document it happens.
func C16XmlFormat() {
	doc := []byte("<R><T><x>1</x></T>\n<T><x>2</x></T></R>")
	failAt := zz.NondetChoice("failAt", len(doc)+1)
	ioErr := zzIOErrs[zz.NondetChoice("ioErrKind", 3)]
	r, err := NewReader("in", &zzFailReader{data: doc, failAt: failAt, ioErr: ioErr}, "/R/T")
	zz.Assume(err == nil)
	for i := 0; i < 4; i++ {
		n, err := r.Read()
		if err == nil {
			r.Release(n)
			continue
		}
		zz.Assert(err != io.EOF, "a failing source never ends in a clean EOF")
		zz.Assert(IsErrNodeReadingFailed(err) && !r.IsContinuableError(err), "a source failure is the fatal ErrNodeReadingFailed")
		zz.Cover("fatal")
		return
	}
	zz.Fail("no error within the read bound")
}
