package main

// Property driver: gosmt check <Cxx> --tier quick|thorough
// Runs the harnesses registered for the property in /verif/checks.json, replays every
// counterexample and a sample of cover witnesses natively (go test -overlay), handles
// known findings, prints VIOLATION / KNOWN-FINDING lines and writes the evidence file.

import (
	"bytes"
	"encoding/json"
	"flag"
	"fmt"
	"os"
	"os/exec"
	"path/filepath"
	"sort"
	"strconv"
	"strings"
	"sync"
	"time"

	"golang.org/x/tools/go/ssa"
)

var verifDir = func() string {
	if d := os.Getenv("GOSMT_VERIF_DIR"); d != "" {
		return d
	}
	return "/verif"
}()

type TierCfg struct {
	Params   map[string]int64 `json:"params"`
	Unwind   int              `json:"unwind"`
	Depth    int              `json:"depth"`
	MaxPaths int              `json:"max_paths"`
	Deadline int              `json:"deadline_s"`
	MapOrder *int             `json:"map_order"`
	Timeout  int              `json:"timeout_ms"`
	UnwindFn map[string]int   `json:"unwind_fn"`
	Skip     bool             `json:"skip"`
}

type HarnessCfg struct {
	Pkg         string            `json:"pkg"`  // relative to /repo, e.g. "./idr"
	Name        string            `json:"name"` // Go function name
	Covers      []string          `json:"covers"`
	Quick       TierCfg           `json:"quick"`
	Thorough    TierCfg           `json:"thorough"`
	Replay      string            `json:"replay"` // "native" (default) | "none"
	Redirect    map[string]string `json:"redirect"`
	Pure        []string          `json:"pure"`
	Bounds      string            `json:"bounds"`
	Models      []string          `json:"models"`
	AllowPanics bool              `json:"allow_panics"`
	Race        bool              `json:"race"`   // native replay under the Go race detector
	Nondet      bool              `json:"nondet"` // the native run has uncontrolled nondeterminism (map order): replay by stress
}

type PropCfg struct {
	Level       string       `json:"level"`
	Harnesses   []HarnessCfg `json:"harnesses"`
	Assumptions []string     `json:"assumptions"`
	Outside     []string     `json:"outside"`
}

type KnownFinding struct {
	ID        string   `json:"id"`
	Property  string   `json:"property"`
	Status    string   `json:"status"` // known | fixed
	Harness   string   `json:"harness"`
	WhatFails string   `json:"what_fails"`
	Witness   string   `json:"witness,omitempty"`
	Commit    string   `json:"commit,omitempty"`
	Also      []string `json:"also_properties,omitempty"` // other properties whose checks run the same harness
}

func (k *KnownFinding) appliesTo(pid string) bool {
	if k.Property == pid {
		return true
	}
	for _, a := range k.Also {
		if a == pid {
			return true
		}
	}
	return false
}

type replayItem struct {
	Harness string           `json:"harness"`
	Vector  map[string]int64 `json:"vector"`
	Known   []string         `json:"known"`
	Params  map[string]int64 `json:"params"`
}

type replayOut struct {
	Result  string
	Observe []string
	Covers  []string
}

func pkgDir(pkg string) string {
	return filepath.Join(repoDir, strings.TrimPrefix(pkg, "./"))
}

// nativeReplay runs the given items through `go test -overlay` in one package.
func nativeReplay(hroot, pkg, pkgName string, harnessNames []string, items []replayItem, scratch string, race ...bool) ([]replayOut, string, error) {
	ov, err := buildOverlay(hroot)
	if err != nil {
		return nil, "", err
	}
	if err := os.MkdirAll(scratch, 0o755); err != nil {
		return nil, "", err
	}
	repl := map[string]string{}
	i := 0
	for virt, data := range ov {
		real := filepath.Join(scratch, fmt.Sprintf("ov%d.go", i))
		i++
		if err := os.WriteFile(real, data, 0o644); err != nil {
			return nil, "", err
		}
		repl[virt] = real
	}
	var tb strings.Builder
	if pkgName == "zzverif" {
		fmt.Fprintf(&tb, "package %s\n\nimport \"testing\"\n\n", pkgName)
		tb.WriteString("func TestZZReplay(t *testing.T) {\n\tNativeRunAll(map[string]func(){\n")
	} else {
		fmt.Fprintf(&tb, "package %s\n\nimport (\n\t\"testing\"\n\tzz \"%s/zzverif\"\n)\n\n", pkgName, modPath)
		tb.WriteString("func TestZZReplay(t *testing.T) {\n\tzz.NativeRunAll(map[string]func(){\n")
	}
	seenName := map[string]bool{}
	for _, h := range harnessNames {
		if seenName[h] {
			continue
		}
		seenName[h] = true
		fmt.Fprintf(&tb, "\t\t%q: %s,\n", h, h)
	}
	tb.WriteString("\t})\n}\n")
	testReal := filepath.Join(scratch, "replay_test.go")
	os.WriteFile(testReal, []byte(tb.String()), 0o644)
	repl[filepath.Join(pkgDir(pkg), "zz_verif_replay_test.go")] = testReal
	ovJSON, _ := json.Marshal(map[string]interface{}{"Replace": repl})
	ovPath := filepath.Join(scratch, "overlay.json")
	os.WriteFile(ovPath, ovJSON, 0o644)
	itemsJSON, _ := json.MarshalIndent(items, "", " ")
	vecPath := filepath.Join(scratch, "vectors.json")
	os.WriteFile(vecPath, itemsJSON, 0o644)
	raceFlag, raceEnv := "", ""
	withRace := len(race) > 0 && race[0]
	if withRace {
		raceFlag = "-race "
		raceEnv = fmt.Sprintf("CGO_ENABLED=1 GORACE='log_path=%s halt_on_error=0' ZZVERIF_RACELOG=%s ", filepath.Join(scratch, "racelog"), filepath.Join(scratch, "racelog"))
	}
	runsh := fmt.Sprintf("#!/bin/sh\n# replays the recorded vectors natively against /repo's current tree\ncd %s && GOFLAGS=-mod=mod GOPROXY=off GOSUMDB=off GOTOOLCHAIN=local %sZZVERIF_VECTORS=%s go test %s-vet=off -count=1 -v -run 'TestZZReplay$' -overlay %s %s\n",
		repoDir, raceEnv, vecPath, raceFlag, ovPath, pkg)
	os.WriteFile(filepath.Join(scratch, "run.sh"), []byte(runsh), 0o755)

	targs := []string{"test"}
	if withRace {
		targs = append(targs, "-race")
	}
	targs = append(targs, "-vet=off", "-count=1", "-v", "-run", "TestZZReplay$", "-timeout", "20m", "-overlay", ovPath, pkg)
	cmd := exec.Command("go", targs...)
	cmd.Dir = repoDir
	cmd.Env = append(os.Environ(), "GOFLAGS=-mod=mod", "GOPROXY=off", "GOSUMDB=off", "GOTOOLCHAIN=local", "ZZVERIF_VECTORS="+vecPath)
	if withRace {
		cmd.Env = append(cmd.Env, "CGO_ENABLED=1", "GORACE=log_path="+filepath.Join(scratch, "racelog")+" halt_on_error=0", "ZZVERIF_RACELOG="+filepath.Join(scratch, "racelog"))
	}
	var outb bytes.Buffer
	cmd.Stdout = &outb
	cmd.Stderr = &outb
	cmd.Run()
	out := outb.String()
	res := make([]replayOut, len(items))
	cur := -1
	for _, line := range strings.Split(out, "\n") {
		switch {
		case strings.HasPrefix(line, "ZZ-BEGIN: "):
			n, _ := strconv.Atoi(strings.TrimPrefix(line, "ZZ-BEGIN: "))
			cur = n
		case strings.HasPrefix(line, "ZZ-OBSERVE: ") && cur >= 0 && cur < len(res):
			res[cur].Observe = append(res[cur].Observe, strings.TrimPrefix(line, "ZZ-OBSERVE: "))
		case strings.HasPrefix(line, "ZZ-COVER: ") && cur >= 0 && cur < len(res):
			res[cur].Covers = append(res[cur].Covers, strings.TrimPrefix(line, "ZZ-COVER: "))
		case strings.HasPrefix(line, "ZZ-RESULT: ") && cur >= 0 && cur < len(res):
			res[cur].Result = strings.TrimPrefix(line, "ZZ-RESULT: ")
		case (strings.HasPrefix(line, "fatal error: ") || strings.HasPrefix(line, "runtime: goroutine stack exceeds")) && cur >= 0 && cur < len(res) && res[cur].Result == "":
			// the process died inside this vector (stack overflow, concurrent map access, ...)
			res[cur].Result = "panic:" + line
		}
	}
	return res, out, nil
}

type harnessEvidence struct {
	Harness     string                 `json:"harness"`
	Pkg         string                 `json:"pkg"`
	Bounds      string                 `json:"bounds"`
	Params      map[string]int64       `json:"params"`
	Unwind      int                    `json:"unwind"`
	Paths       int                    `json:"paths"`
	Completed   int                    `json:"completed"`
	Pruned      int                    `json:"pruned"`
	Decisions   int64                  `json:"decisions"`
	Steps       int64                  `json:"ssa_instructions_executed"`
	Asserts     map[string]*AssertStat `json:"asserts"`
	Covers      map[string]int         `json:"cover_labels"`
	Queries     int                    `json:"queries"`
	QSat        int                    `json:"q_sat"`
	QUnsat      int                    `json:"q_unsat"`
	QUnknown    int                    `json:"q_unknown"`
	SolverTimeS float64                `json:"solver_time_s"`
	WallS       float64                `json:"wall_s"`
	Validated   int                    `json:"witnesses_validated_natively"`
	Functions   []string               `json:"functions_encoded"`
	Models      []string               `json:"models_used,omitempty"`
	Notes       []string               `json:"notes,omitempty"`
	KnownProbes map[string]string      `json:"known_finding_probes,omitempty"`
	CrossCheck  string                 `json:"cross_check,omitempty"`
}

func tierOf(h *HarnessCfg, tier string) *TierCfg {
	if tier == "thorough" {
		t := h.Thorough
		// thorough inherits quick settings where unset
		if t.Params == nil {
			t.Params = h.Quick.Params
		}
		if t.Unwind == 0 {
			t.Unwind = h.Quick.Unwind
		}
		if t.Depth == 0 {
			t.Depth = h.Quick.Depth
		}
		if t.MapOrder == nil {
			t.MapOrder = h.Quick.MapOrder
		}
		if t.UnwindFn == nil {
			t.UnwindFn = h.Quick.UnwindFn
		}
		return &t
	}
	return &h.Quick
}

func mkConfig(t *TierCfg, tier string, workers int) *Config {
	cfg := &Config{Unwind: 40, MaxDepth: 200, Solver: "z3-new", TimeoutMs: 20000, Workers: workers, MaxPaths: 400000,
		MapOrder: 1, Params: map[string]int64{}, Known: map[string]bool{}, Validate: 6, UnwindFn: t.UnwindFn}
	if tier == "thorough" {
		cfg.TimeoutMs = 60000
		cfg.MaxPaths = 4000000
		cfg.Validate = 12
		cfg.DeadlineSec = 1500 // a thorough harness that does not finish is reported, never truncated silently
	}
	if t.Unwind > 0 {
		cfg.Unwind = t.Unwind
	}
	if t.Depth > 0 {
		cfg.MaxDepth = t.Depth
	}
	if t.MaxPaths > 0 {
		cfg.MaxPaths = t.MaxPaths
	}
	if t.Deadline > 0 {
		cfg.DeadlineSec = t.Deadline
	}
	if t.MapOrder != nil {
		cfg.MapOrder = *t.MapOrder
	}
	if t.Timeout > 0 {
		cfg.TimeoutMs = t.Timeout
	}
	for k, v := range t.Params {
		cfg.Params[k] = v
	}
	return cfg
}

func pkgNameOf(prog *ssa.Program, spkgs []*ssa.Package, fn *ssa.Function) string {
	return fn.Pkg.Pkg.Name()
}

func cmdCheck(args []string) int {
	fs := flag.NewFlagSet("check", flag.ExitOnError)
	tier := fs.String("tier", "", "quick | thorough")
	hroot := fs.String("harness-root", filepath.Join(verifDir, "harness"), "harness root")
	workers := fs.Int("workers", 16, "workers")
	only := fs.String("only", "", "only this harness")
	noReplay := fs.Bool("no-replay", false, "skip native replays (debug)")
	evdir := fs.String("evidence-dir", filepath.Join(verifDir, "evidence"), "evidence dir")
	if len(args) < 1 {
		fmt.Fprintln(os.Stderr, "usage: gosmt check <property> --tier quick|thorough")
		return 2
	}
	pid := args[0]
	fs.Parse(args[1:])
	if *tier == "" {
		*tier = os.Getenv("VERIF_TIER")
	}
	if *tier == "" {
		*tier = "quick"
	}
	seed := 0
	if s := os.Getenv("VERIF_SEED"); s != "" {
		seed, _ = strconv.Atoi(s)
	}
	start := time.Now()

	var all map[string]*PropCfg
	data, err := os.ReadFile(filepath.Join(verifDir, "checks.json"))
	if err != nil {
		fmt.Println("INCONCLUSIVE: cannot read checks.json:", err)
		return 2
	}
	if err := json.Unmarshal(data, &all); err != nil {
		fmt.Println("INCONCLUSIVE: checks.json:", err)
		return 2
	}
	pc := all[pid]
	if pc == nil {
		fmt.Println("INCONCLUSIVE: no such property in checks.json:", pid)
		return 2
	}
	var kfs []KnownFinding
	if data, err := os.ReadFile(filepath.Join(verifDir, "known_findings.json")); err == nil {
		json.Unmarshal(data, &kfs)
	}

	// load all packages once
	pkgSet := map[string]bool{}
	for _, h := range pc.Harnesses {
		pkgSet[h.Pkg] = true
	}
	var pkgs []string
	for p := range pkgSet {
		pkgs = append(pkgs, p)
	}
	sort.Strings(pkgs)
	loadStart := time.Now()
	prog, spkgs, err := loadProgram(*hroot, pkgs)
	if err != nil {
		fmt.Println("INCONCLUSIVE: harness does not compile against the current tree:", err)
		writeEvidence(*evdir, pid, *tier, seed, pc, nil, nil, []string{"load failed: " + err.Error()}, 0, time.Since(start).Seconds(), nil)
		return 2
	}
	loadS := time.Since(loadStart).Seconds()

	scratchRoot, _ := os.MkdirTemp("", "gosmt-"+pid+"-")
	defer os.RemoveAll(scratchRoot)

	var evs []harnessEvidence
	var inconclusive []string
	var violationLines []string
	var knownLines []string
	var samples []interface{}
	totalValidated := 0
	nviol := 0

	type pendingReplay struct {
		h     *HarnessCfg
		fn    *ssa.Function
		items []replayItem
		kinds []string // "witness" | "violation" | "probe:<id>"
		viols []*Violation
		wits  []*PathSample
		he    *harnessEvidence
	}
	var pend []*pendingReplay

	for hi := range pc.Harnesses {
		h := &pc.Harnesses[hi]
		if *only != "" && h.Name != *only {
			continue
		}
		t := tierOf(h, *tier)
		if t.Skip {
			continue
		}
		fn := findHarness(spkgs, h.Name)
		if fn == nil {
			inconclusive = append(inconclusive, "harness not found: "+h.Name)
			continue
		}
		cfg := mkConfig(t, *tier, *workers)
		cfg.Redirect = h.Redirect
		cfg.PureFns = map[string]bool{}
		for _, p := range h.Pure {
			cfg.PureFns[p] = true
		}
		var myKnown []string
		for _, k := range kfs {
			if k.appliesTo(pid) && k.Status == "known" && (k.Harness == h.Name || k.Harness == "") {
				cfg.Known[k.ID] = true
				myKnown = append(myKnown, k.ID)
			}
		}
		res := Explore(prog, fn, cfg)
		he := harnessEvidence{Harness: h.Name, Pkg: h.Pkg, Bounds: h.Bounds, Params: cfg.Params, Unwind: cfg.Unwind,
			Paths: res.Paths, Completed: res.Completed, Pruned: res.Pruned, Decisions: res.Decisions, Steps: res.Steps,
			Asserts: res.Asserts, Covers: res.Covers, Queries: res.Queries, QSat: res.QSat, QUnsat: res.QUnsat,
			QUnknown: res.QUnknown, SolverTimeS: res.SolverTimeS, WallS: res.WallS, Functions: res.Functions,
			Models: h.Models, Notes: res.Notes, KnownProbes: map[string]string{}}
		fmt.Fprintf(os.Stderr, "[%s] %s: paths=%d completed=%d pruned=%d panics=%d unwinds=%d violations=%d queries=%d (sat %d unsat %d unknown %d) solver=%.1fs wall=%.1fs\n",
			pid, h.Name, res.Paths, res.Completed, res.Pruned, res.Panics, res.Unwinds, len(res.Violations), res.Queries, res.QSat, res.QUnsat, res.QUnknown, res.SolverTimeS, res.WallS)
		for _, s := range res.Inconclusive {
			inconclusive = append(inconclusive, h.Name+": "+s)
		}
		if res.Unwinds > 0 {
			var ws []string
			for w, n := range res.UnwindWhere {
				ws = append(ws, fmt.Sprintf("%s ×%d", w, n))
			}
			sort.Strings(ws)
			inconclusive = append(inconclusive, h.Name+": unwinding assertion failed: "+strings.Join(ws, "; "))
		}
		if res.Completed == 0 {
			inconclusive = append(inconclusive, h.Name+": vacuous: no path reaches the end of the harness")
		}
		for _, c := range h.Covers {
			if res.Covers[c] == 0 {
				inconclusive = append(inconclusive, h.Name+": vacuous: cover label never reached: "+c)
			}
		}
		// cross-check (thorough tier): the same exploration decided by a second solver must
		// give the same path set and the same assertion verdicts
		if *tier == "thorough" && len(res.Inconclusive) == 0 {
			xt, base, scope := t, res, "thorough bounds"
			const xcheckBudget = 5000 // paths: cvc5 is 3-10x slower than z3 5.1 on these queries
			skip := false
			if res.Paths > xcheckBudget {
				// too large to repeat: cross-check at the quick bounds instead, if those are small enough
				xt, scope = tierOf(h, "quick"), "quick bounds"
				bcfg := mkConfig(xt, "quick", *workers)
				bcfg.Redirect, bcfg.PureFns, bcfg.Known = cfg.Redirect, cfg.PureFns, cfg.Known
				bcfg.Validate = 0
				bcfg.MaxPaths = xcheckBudget + 1
				base = Explore(prog, fn, bcfg)
				if base.Paths > xcheckBudget || len(base.Inconclusive) > 0 {
					skip = true
					he.CrossCheck = fmt.Sprintf("cvc5 1.0: skipped (more than %d paths also at the quick bounds: beyond the cross-check budget)", xcheckBudget)
				}
			}
			if !skip {
				xcfg := mkConfig(xt, "quick", *workers)
				xcfg.Redirect, xcfg.PureFns, xcfg.Known = cfg.Redirect, cfg.PureFns, cfg.Known
				xcfg.Solver = "cvc5"
				xcfg.Validate = 0
				xcfg.TimeoutMs = 60000
				xcfg.DeadlineSec = 400
				xres := Explore(prog, fn, xcfg)
				res := base
				_ = scope
				same := xres.Paths == res.Paths && xres.Completed == res.Completed && len(xres.Violations) == len(res.Violations) && len(xres.Inconclusive) == 0
				for l, a := range res.Asserts {
					xa := xres.Asserts[l]
					if xa == nil || xa.Held != a.Held || xa.Violated != a.Violated {
						same = false
					}
				}
				if len(xres.Inconclusive) > 0 {
					he.CrossCheck = fmt.Sprintf("cvc5 1.0: inconclusive (%s) — not counted", strings.Join(xres.Inconclusive, "; "))
				} else if same {
					he.CrossCheck = fmt.Sprintf("cvc5 1.0 at the %s: identical (%d paths, %d queries, %.1fs solver time)", scope, xres.Paths, xres.Queries, xres.SolverTimeS)
				} else {
					he.CrossCheck = fmt.Sprintf("cvc5 1.0: DISAGREES (paths %d vs %d, violations %d vs %d)", xres.Paths, res.Paths, len(xres.Violations), len(res.Violations))
					inconclusive = append(inconclusive, h.Name+": solver disagreement: "+he.CrossCheck)
				}
			}
		}
		pr := &pendingReplay{h: h, fn: fn, he: &he}
		// violations: dedupe by label, at most 2 per label
		perLabel := map[string]int{}
		for vi := range res.Violations {
			v := &res.Violations[vi]
			if perLabel[v.Label] >= 2 {
				continue
			}
			perLabel[v.Label]++
			pr.items = append(pr.items, replayItem{Harness: h.Name, Vector: v.Vector, Known: myKnown, Params: cfg.Params})
			pr.kinds = append(pr.kinds, "violation")
			pr.viols = append(pr.viols, v)
			pr.wits = append(pr.wits, nil)
		}
		for wi := range res.Witnesses {
			w := &res.Witnesses[wi]
			pr.items = append(pr.items, replayItem{Harness: h.Name, Vector: w.Vector, Known: myKnown, Params: cfg.Params})
			pr.kinds = append(pr.kinds, "witness")
			pr.viols = append(pr.viols, nil)
			pr.wits = append(pr.wits, w)
		}
		for i, s := range res.Samples {
			if i < 3 {
				samples = append(samples, map[string]interface{}{"harness": h.Name, "path_decisions": s.Prefix, "covers": s.Covers,
					"witness_vector": s.Vector, "observed": s.Observe, "ssa_steps": s.Steps})
			}
		}
		// known-finding probes: run the harness restricted to the finding's region
		for _, id := range myKnown {
			pcfg := mkConfig(t, *tier, *workers)
			pcfg.Redirect = h.Redirect
			pcfg.PureFns = cfg.PureFns
			pcfg.Params["probe_"+id] = 1
			pcfg.Validate = 0
			pcfg.MaxPaths = cfg.MaxPaths
			pres := Explore(prog, fn, pcfg)
			fmt.Fprintf(os.Stderr, "[%s] %s probe %s: paths=%d violations=%d\n", pid, h.Name, id, pres.Paths, len(pres.Violations))
			if len(pres.Violations) > 0 {
				v := &pres.Violations[0]
				pr.items = append(pr.items, replayItem{Harness: h.Name, Vector: v.Vector, Params: pcfg.Params})
				pr.kinds = append(pr.kinds, "probe:"+id)
				pr.viols = append(pr.viols, v)
				pr.wits = append(pr.wits, nil)
			} else {
				he.KnownProbes[id] = "no longer found by the solver"
			}
		}
		pend = append(pend, pr)
		evs = append(evs, he)
		pend[len(pend)-1].he = &evs[len(evs)-1]
	}
	// he pointers may have moved with append; re-point
	for i := range pend {
		pend[i].he = &evs[i]
	}

	// native replays, one go test per package, in parallel
	type pkgBatch struct {
		pkg     string
		pkgName string
		names   []string
		items   []replayItem
		back    [][2]int // (pend index, item index)
		race    bool
	}
	batches := map[string]*pkgBatch{}
	for pi, pr := range pend {
		if len(pr.items) == 0 || pr.h.Replay == "none" || *noReplay {
			continue
		}
		bkey := pr.h.Pkg
		if pr.h.Race {
			bkey += " -race"
		}
		b := batches[bkey]
		if b == nil {
			b = &pkgBatch{pkg: pr.h.Pkg, pkgName: pr.fn.Pkg.Pkg.Name(), race: pr.h.Race}
			batches[bkey] = b
		}
		b.names = append(b.names, pr.h.Name)
		for ii, it := range pr.items {
			b.items = append(b.items, it)
			b.back = append(b.back, [2]int{pi, ii})
		}
	}
	type itemRes struct {
		out replayOut
		ok  bool
	}
	results := map[[2]int]replayOut{}
	rawOut := map[string]string{}
	var wg sync.WaitGroup
	var rmu sync.Mutex
	bi := 0
	for _, b := range batches {
		wg.Add(1)
		bi++
		go func(b *pkgBatch, bi int) {
			defer wg.Done()
			outs, raw, err := nativeReplay(*hroot, b.pkg, b.pkgName, b.names, b.items, filepath.Join(scratchRoot, fmt.Sprintf("replay%d", bi)), b.race)
			rmu.Lock()
			defer rmu.Unlock()
			rawOut[b.pkg] = raw
			if err != nil {
				inconclusive = append(inconclusive, "native replay failed to start: "+err.Error())
				return
			}
			for k, o := range outs {
				results[b.back[k]] = o
			}
		}(b, bi)
	}
	wg.Wait()

	replayDirN := 0
	for pi, pr := range pend {
		if pr.h.Replay == "none" || *noReplay {
			// engine verdicts stand alone (documented per harness)
			for ii, kind := range pr.kinds {
				if kind == "violation" {
					nviol++
					dir := saveReplay(*evdir, pid, &replayDirN, pr.h, pr.items[ii], pr.viols[ii], "", *hroot)
					violationLines = append(violationLines, fmt.Sprintf("VIOLATION property=%s replay=%s", pid, dir))
					fmt.Fprintf(os.Stderr, "  violated: %s — %s (vector %v)\n", pr.h.Name, pr.viols[ii].Label, pr.viols[ii].Vector)
				}
				if strings.HasPrefix(kind, "probe:") {
					id := strings.TrimPrefix(kind, "probe:")
					knownLines = append(knownLines, fmt.Sprintf("KNOWN-FINDING: property=%s %s: %s", pid, id, kfWhat(kfs, id)))
					pr.he.KnownProbes[id] = "found by the solver (not replayed)"
				}
			}
			continue
		}
		// concurrent harnesses: the native scheduler is not under control, so a schedule found by
		// the engine reproduces in some stress run of the harness, not necessarily in the run of
		// the same vector
		raceFail, engineViol := "", false
		if pr.h.Race || pr.h.Nondet {
			for ii, kind := range pr.kinds {
				if kind == "violation" {
					engineViol = true
				}
				if o, have := results[[2]int{pi, ii}]; have && raceFail == "" &&
					(strings.HasPrefix(o.Result, "assert-fail:") || strings.HasPrefix(o.Result, "panic:")) {
					raceFail = o.Result
				}
			}
		}
		for ii, kind := range pr.kinds {
			o, have := results[[2]int{pi, ii}]
			if !have || o.Result == "" {
				inconclusive = append(inconclusive, fmt.Sprintf("%s: native replay produced no result for %s item (see log)", pr.h.Name, kind))
				if raw := rawOut[pr.h.Pkg]; raw != "" {
					tail := raw
					if len(tail) > 3000 {
						tail = tail[len(tail)-3000:]
					}
					fmt.Fprintln(os.Stderr, "---- go test output (tail) ----\n"+tail)
					rawOut[pr.h.Pkg] = ""
				}
				continue
			}
			switch {
			case kind == "witness":
				w := pr.wits[ii]
				if o.Result != "completed" && (pr.h.Race || pr.h.Nondet) && engineViol {
					continue // the native stress run hit the schedule the engine reports as a violation
				}
				if o.Result != "completed" {
					inconclusive = append(inconclusive, fmt.Sprintf("%s: encoder validation: engine path completed but native run gave %q (vector %v)", pr.h.Name, o.Result, w.Vector))
					continue
				}
				if strings.Join(o.Observe, "\n") != strings.Join(w.Observe, "\n") {
					inconclusive = append(inconclusive, fmt.Sprintf("%s: encoder validation: Observe trace differs: engine %q native %q (vector %v)", pr.h.Name, w.Observe, o.Observe, w.Vector))
					continue
				}
				pr.he.Validated++
				totalValidated++
			case kind == "violation" || strings.HasPrefix(kind, "probe:"):
				v := pr.viols[ii]
				confirmed := false
				if v.Kind == "assert" && o.Result == "assert-fail:"+v.Label {
					confirmed = true
				}
				if v.Kind == "panic" && strings.HasPrefix(o.Result, "panic:") {
					confirmed = true
				}
				if v.Kind == "hang" && (o.Result == "timeout" || strings.Contains(o.Result, "stack overflow") || strings.Contains(o.Result, "stack exceeds")) {
					confirmed = true
				}
				if v.Kind == "monitor" && (strings.HasPrefix(o.Result, "assert-fail:") || strings.HasPrefix(o.Result, "panic:")) {
					// engine-side monitors (double release, use after release) have no native
					// counterpart; the defect counts as reproduced when the same vector makes a
					// harness assertion fail or the real code panic natively
					confirmed = true
				}
				if !confirmed && (pr.h.Race || pr.h.Nondet) && raceFail != "" && kind == "violation" {
					confirmed = true
					o.Result = raceFail + " (in another stress run of this harness)"
				}
				if strings.HasPrefix(kind, "probe:") {
					id := strings.TrimPrefix(kind, "probe:")
					if confirmed || strings.HasPrefix(o.Result, "assert-fail:") || strings.HasPrefix(o.Result, "panic:") {
						knownLines = append(knownLines, fmt.Sprintf("KNOWN-FINDING: property=%s %s: %s", pid, id, kfWhat(kfs, id)))
						pr.he.KnownProbes[id] = "reproduced natively: " + o.Result
					} else {
						pr.he.KnownProbes[id] = "solver witness did not reproduce natively: " + o.Result
						inconclusive = append(inconclusive, fmt.Sprintf("%s: probe of known finding %s: solver witness does not replay (%s)", pr.h.Name, id, o.Result))
					}
					continue
				}
				if confirmed {
					nviol++
					dir := saveReplay(*evdir, pid, &replayDirN, pr.h, pr.items[ii], v, o.Result, *hroot)
					violationLines = append(violationLines, fmt.Sprintf("VIOLATION property=%s replay=%s", pid, dir))
					fmt.Fprintf(os.Stderr, "  violated: %s — %s at %s (vector %v) native: %s\n", pr.h.Name, v.Label, v.Pos, v.Vector, o.Result)
				} else {
					inconclusive = append(inconclusive, fmt.Sprintf("%s: counterexample for %q does not replay natively (native result %q, vector %v): encoding or model wrong", pr.h.Name, v.Label, o.Result, v.Vector))
				}
			}
		}
	}

	wall := time.Since(start).Seconds()
	writeEvidence(*evdir, pid, *tier, seed, pc, evs, samples, inconclusive, nviol, wall, map[string]interface{}{
		"package_load_s": loadS, "traces_validated": totalValidated, "known_lines": knownLines,
	})
	for _, l := range knownLines {
		fmt.Println(l)
	}
	if nviol > 0 {
		for _, l := range violationLines {
			fmt.Println(l)
		}
		return 1
	}
	if len(inconclusive) > 0 {
		for _, s := range inconclusive {
			fmt.Println("INCONCLUSIVE:", s)
		}
		return 2
	}
	fmt.Printf("OK property=%s tier=%s harnesses=%d wall=%.1fs\n", pid, *tier, len(evs), wall)
	return 0
}

func kfWhat(kfs []KnownFinding, id string) string {
	for _, k := range kfs {
		if k.ID == id {
			return k.WhatFails
		}
	}
	return id
}

func saveReplay(evdir, pid string, n *int, h *HarnessCfg, it replayItem, v *Violation, native string, hroot string) string {
	*n++
	dir := filepath.Join(evdir, "replays", pid, fmt.Sprintf("%s-%d", h.Name, *n))
	os.MkdirAll(dir, 0o755)
	info := map[string]interface{}{"property": pid, "harness": h.Name, "pkg": h.Pkg, "label": v.Label, "kind": v.Kind,
		"position": v.Pos, "vector": it.Vector, "params": it.Params, "known": it.Known, "native_result": native,
		"path_decisions": v.Prefix}
	data, _ := json.MarshalIndent(info, "", " ")
	os.WriteFile(filepath.Join(dir, "violation.json"), data, 0o644)
	items, _ := json.MarshalIndent([]replayItem{it}, "", " ")
	os.WriteFile(filepath.Join(dir, "vectors.json"), items, 0o644)
	raceOpt := ""
	if h.Race {
		raceOpt = " --race"
	}
	sh := fmt.Sprintf("#!/bin/sh\n# replays this counterexample natively against /repo's current tree\nexec %s/bin/gosmt replay --pkg %s --harness %s --vectors %s/vectors.json%s\n", verifDir, h.Pkg, h.Name, dir, raceOpt)
	os.WriteFile(filepath.Join(dir, "run.sh"), []byte(sh), 0o755)
	return dir
}

func writeEvidence(evdir, pid, tier string, seed int, pc *PropCfg, evs []harnessEvidence, samples []interface{}, inconclusive []string, nviol int, wall float64, extra map[string]interface{}) {
	os.MkdirAll(evdir, 0o755)
	states, transitions, validated := 0, int64(0), 0
	queries, qsat, qunsat, qunk := 0, 0, 0, 0
	solverT := 0.0
	fnset := map[string]bool{}
	var bounds []string
	for _, e := range evs {
		states += e.Paths
		transitions += e.Decisions
		validated += e.Validated
		queries += e.Queries
		qsat += e.QSat
		qunsat += e.QUnsat
		qunk += e.QUnknown
		solverT += e.SolverTimeS
		for _, f := range e.Functions {
			if !strings.Contains(f, "zzverif") {
				fnset[f] = true
			}
		}
		if e.Bounds != "" {
			bounds = append(bounds, e.Harness+": "+e.Bounds)
		}
	}
	var fns []string
	for f := range fnset {
		fns = append(fns, f)
	}
	sort.Strings(fns)
	if len(samples) == 0 {
		samples = []interface{}{"no completed path"}
	}
	cov := map[string]interface{}{
		"states":                        maxi(states, 1),
		"transitions":                   maxi(int(transitions), 1),
		"traces_validated_against_impl": validated,
		"samples":                       samples,
		"rule":                          "states = feasible symbolic paths explored to their end (each decided by the SMT solver); transitions = solver-decided branch/choice points; every assertion on every path is an SMT query (pc ∧ ¬property must be unsat)",
		"harnesses":                     evs,
		"functions_encoded":             fns,
		"bounds":                        bounds,
		"queries":                       map[string]int{"total": queries, "sat": qsat, "unsat": qunsat, "unknown": qunk},
		"solver":                        "z3 5.1.0 (z3-new; one persistent process per worker, push/pop)",
		"solver_time_s":                 solverT,
		"inconclusive":                  inconclusive,
		"outside_claim":                 pc.Outside,
		"exhaustive":                    false,
	}
	for k, v := range extra {
		cov[k] = v
	}
	ev := map[string]interface{}{
		"property_id": pid,
		"tier":        tier,
		"seed":        seed,
		"level":       "model_checking",
		"coverage":    cov,
		"assumptions": pc.Assumptions,
		"wall_s":      wall,
		"violations":  nviol,
	}
	data, _ := json.MarshalIndent(ev, "", " ")
	os.WriteFile(filepath.Join(evdir, pid+".json"), data, 0o644)
}

// cmdReplay: gosmt replay --pkg ./x --harness H --vectors file
func cmdReplay(args []string) int {
	fs := flag.NewFlagSet("replay", flag.ExitOnError)
	pkg := fs.String("pkg", "", "package")
	harness := fs.String("harness", "", "harness")
	vectors := fs.String("vectors", "", "vectors.json")
	hroot := fs.String("harness-root", filepath.Join(verifDir, "harness"), "harness root")
	race := fs.Bool("race", false, "run under the Go race detector")
	fs.Parse(args)
	data, err := os.ReadFile(*vectors)
	if err != nil {
		fmt.Println(err)
		return 2
	}
	var items []replayItem
	json.Unmarshal(data, &items)
	// package name: read from the directory
	pkgName := ""
	ents, _ := filepath.Glob(filepath.Join(pkgDir(*pkg), "*.go"))
	for _, f := range ents {
		src, _ := os.ReadFile(f)
		for _, line := range strings.Split(string(src), "\n") {
			if strings.HasPrefix(line, "package ") {
				pkgName = strings.TrimSpace(strings.TrimPrefix(line, "package "))
				break
			}
		}
		if pkgName != "" && !strings.HasSuffix(pkgName, "_test") {
			break
		}
	}
	scratch, _ := os.MkdirTemp("", "gosmt-replay-")
	defer os.RemoveAll(scratch)
	outs, raw, err := nativeReplay(*hroot, *pkg, pkgName, []string{*harness}, items, scratch, *race)
	if err != nil {
		fmt.Println(err)
		return 2
	}
	rc := 0
	for i, o := range outs {
		fmt.Printf("item %d: %s\n", i, o.Result)
		for _, l := range o.Observe {
			fmt.Println("  observe:", l)
		}
		if o.Result == "" {
			fmt.Println(raw)
			rc = 2
		} else if strings.HasPrefix(o.Result, "assert-fail") || strings.HasPrefix(o.Result, "panic") {
			rc = 1
		}
	}
	return rc
}

// cmdSelftest: conformance of the engine against native Go: every path of the selftest
// harnesses (package zzverif) gets a witness vector, is replayed natively, and the Observe
// traces must be identical.
func cmdSelftest(args []string) int {
	hroot := filepath.Join(verifDir, "harness")
	prog, spkgs, err := loadProgram(hroot, []string{"./errs"})
	if err != nil {
		fmt.Println("selftest: load failed:", err)
		return 2
	}
	names := []string{"SelftestCore", "SelftestModels"}
	rc := 0
	for _, name := range names {
		fn := findHarness(spkgs, name)
		if fn == nil {
			fmt.Println("selftest: harness not found:", name)
			return 2
		}
		cfg := &Config{Unwind: 60, MaxDepth: 200, Solver: "z3-new", TimeoutMs: 20000, Workers: 8, MaxPaths: 20000,
			MapOrder: 1, Params: map[string]int64{}, Known: map[string]bool{}, Validate: 1000}
		res := Explore(prog, fn, cfg)
		var items []replayItem
		for _, w := range res.Witnesses {
			items = append(items, replayItem{Harness: name, Vector: w.Vector})
		}
		scratch, _ := os.MkdirTemp("", "gosmt-selftest-")
		outs, raw, err := nativeReplay(hroot, "./errs", "errs", []string{name}, items, scratch)
		os.RemoveAll(scratch)
		if err != nil || len(outs) != len(items) || (len(outs) > 0 && outs[0].Result == "") {
			fmt.Println("selftest: native replay failed\n" + raw)
			return 2
		}
		bad := 0
		for i, o := range outs {
			if o.Result != "completed" || strings.Join(o.Observe, "\n") != strings.Join(res.Witnesses[i].Observe, "\n") {
				bad++
				if bad <= 3 {
					fmt.Printf("selftest MISMATCH %s vector %v\n engine: %q\n native: %q (%s)\n", name, items[i].Vector, res.Witnesses[i].Observe, o.Observe, o.Result)
				}
			}
		}
		fmt.Printf("selftest %s: paths=%d witnesses=%d mismatches=%d inconclusive=%v\n", name, res.Paths, len(items), bad, res.Inconclusive)
		if bad > 0 || len(res.Inconclusive) > 0 || len(items) == 0 {
			rc = 2
		}
	}
	return rc
}
