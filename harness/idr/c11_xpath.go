package idr

import (
	"github.com/antchfx/xmlquery"

	zz "github.com/jf-tech/omniparser/zzverif"
)

// C11: the same xpath expression evaluated by the same engine (antchfx/xpath) over the idr
// navigator and over the reference XML DOM binding (antchfx/xmlquery) selects the same
// nodes, in the same order, with the same string values. Both run as real code.

var zzC11Exprs = []string{
	"/R/T",
	"//T",
	"//x",
	"/R/*",
	"//@a",
	"//T[@a='1']",
	"//T[x='1']",
	"/R/T[1]",
	"/R/T[last()]",
	"/R/*[last()]",
	"//x/..",
	"//x/parent::T",
	"//T/following-sibling::*",
	"//T/preceding-sibling::*",
	"//x/ancestor::*",
	"//T[position()=2]",
	"//*[starts-with(name(),'T')]",
	"//T[contains(x,'1')]",
	"//T[not(@a)]",
	"/R/Q/T/x",
	"//T[x='1' and @a='2']",
	"//T[x='1' or @a='2']",
	"/R/*[self::T]",
	"//T//x",
	"//T[count(x)=1]",
	"//*[@a][x]",
	"//T[.='1']",
	"//T/descendant-or-self::*",
	"//x/ancestor-or-self::T",
	"//T[string-length(x)=1]",
	// relative and absolute paths from an inner start node
	"x",
	"T",
	".//x",
	"../*",
	"/R/T/x",
	"*[/R/T]",
	"//T[count(//x)>1]",
	"/R | x",
	// string literals are taken verbatim (whitespace runs, tabs)
	"//T[string-length('a  b')=4]",
	"//*[contains('p\tq', '\t')]",
	"//T[concat(x,'  ')=concat(x,'  ')][string-length(concat(x,'  '))=3]",
}

func zzRefText(n *xmlquery.Node) string { return n.InnerText() }

func C11XPathVsDOM() {
	K := zz.Param("K", 2)
	ei := zz.NondetChoice("expr", len(zzC11Exprs))
	if f := zz.Param("expr", -1); f >= 0 {
		zz.Assume(ei == f)
	}
	expr := zzC11Exprs[ei]
	doc := zzDoc(K)
	text := doc.write(nil)
	// idr side: whole document through the real stream reader
	sp, err := NewXMLStreamReader(&zzChunkReader{data: text, failAt: -1}, "/*")
	zz.Assume(err == nil)
	rootElem, err := sp.Read()
	zz.Assume(err == nil)
	// reference side
	ref, err := xmlquery.Parse(&zzChunkReader{data: append([]byte{}, text...), failAt: -1})
	zz.Assume(err == nil)
	// start node: the document, the root element, or the root element's first element child
	start, refStart := rootElem.Parent, ref
	switch zz.NondetChoice("start", 3) {
	case 1:
		start = rootElem
		refStart = ref.FirstChild
		for refStart != nil && refStart.Type != xmlquery.ElementNode {
			refStart = refStart.NextSibling
		}
	case 2:
		start = rootElem.FirstChild
		for start != nil && start.Type != ElementNode {
			start = start.NextSibling
		}
		refStart = ref.FirstChild
		for refStart != nil && refStart.Type != xmlquery.ElementNode {
			refStart = refStart.NextSibling
		}
		if refStart != nil {
			refStart = refStart.FirstChild
			for refStart != nil && refStart.Type != xmlquery.ElementNode {
				refStart = refStart.NextSibling
			}
		}
		zz.Cover("inner-start")
	}
	zz.Assume(start != nil && refStart != nil)
	got, err := MatchAll(start, expr)
	zz.Assert(err == nil, "expression compiles")
	want, err := xmlquery.QueryAll(refStart, expr)
	zz.Assume(err == nil)
	zz.Observe("counts", expr, len(got), len(want))
	zz.Assert(len(got) == len(want), "same number of nodes selected")
	for i := range got {
		if i < len(want) {
			zz.Assert(got[i].Data == want[i].Data, "same node (name) at the same position of the result")
			zz.Assert(got[i].InnerText() == want[i].InnerText(), "same string value")
			zz.Assert((got[i].Type == AttributeNode) == (want[i].Type == xmlquery.AttributeNode), "same node kind")
		}
	}
	zz.Cover("compared")
}
