package idr

import (
	"io"

	zz "github.com/jf-tech/omniparser/zzverif"
)

// ---- abstract XML documents: forked shape, symbolic values ----

type zzX struct {
	name   string // element name ("" = text item)
	prefix string
	uri    string
	attrs  [][2]interface{} // name, value([]byte)
	text   []byte
	kids   []*zzX
}

func zzVal(name string) []byte {
	v := zz.NondetBytesN(name, 1)
	zz.Assume(zz.ByteIn(v[0], "12"))
	return v
}

// zzValOpt: like zzVal, or the empty value (an attribute written as a="").
func zzValOpt(name string) []byte {
	v := zz.NondetBytes(name, 1)
	for _, c := range v {
		zz.Assume(zz.ByteIn(c, "12"))
	}
	return v
}

func zzLeafX() *zzX { return &zzX{name: "x", kids: []*zzX{{text: zzVal("xv")}}} }

// zzT: one of five record shapes: <T><x>v</x></T>, with attribute a, with a nested T (a
// nested candidate on the same path), empty, attribute + nested T without own x.
func zzT(nested bool) *zzX {
	t := &zzX{name: "T"}
	n := 5
	if !nested {
		n = 2
	}
	switch zz.NondetChoice("tshape", n) {
	case 0:
		t.kids = append(t.kids, zzLeafX())
	case 1:
		t.attrs = append(t.attrs, [2]interface{}{"a", zzVal("av")})
		t.kids = append(t.kids, zzLeafX())
	case 2:
		t.kids = append(t.kids, zzLeafX(), zzT(false))
	case 3:
		// empty record
	default:
		t.attrs = append(t.attrs, [2]interface{}{"a", zzVal("av")})
		t.kids = append(t.kids, zzT(false))
	}
	return t
}

// zzDoc: <R> with 1..K children, each a T record, a Q wrapper around a T, or a whitespace
// text between elements.
func zzDoc(K int) *zzX {
	r := &zzX{name: "R"}
	if zz.Param("RATTR", 0) == 1 && zz.NondetBool("rootattr") {
		r.attrs = append(r.attrs, [2]interface{}{"id", []byte("7")})
	}
	n := 1 + zz.NondetChoice("nkids", K)
	for i := 0; i < n; i++ {
		switch zz.NondetChoice("kid", 3) {
		case 0:
			r.kids = append(r.kids, zzT(true))
		case 1:
			r.kids = append(r.kids, &zzX{name: "Q", kids: []*zzX{zzT(false)}})
		default:
			r.kids = append(r.kids, &zzX{text: []byte("\n")})
		}
	}
	return r
}

func (x *zzX) write(out []byte) []byte {
	if x.name == "" {
		return append(out, x.text...)
	}
	out = append(out, '<')
	if x.prefix != "" {
		out = append(out, x.prefix...)
		out = append(out, ':')
	}
	out = append(out, x.name...)
	for _, a := range x.attrs {
		out = append(out, ' ')
		out = append(out, a[0].(string)...)
		out = append(out, '=', '"')
		out = append(out, a[1].([]byte)...)
		out = append(out, '"')
	}
	out = append(out, '>')
	for _, k := range x.kids {
		out = k.write(out)
	}
	out = append(out, '<', '/')
	if x.prefix != "" {
		out = append(out, x.prefix...)
		out = append(out, ':')
	}
	out = append(out, x.name...)
	return append(out, '>')
}

// build constructs the reference tree directly (no parser, no streaming).
func (x *zzX) build(parent *Node) *Node {
	if x.name == "" {
		n := CreateXMLNode(TextNode, string(x.text), XMLSpecific{})
		AddChild(parent, n)
		return n
	}
	n := CreateXMLNode(ElementNode, x.name, XMLSpecific{NamespacePrefix: x.prefix, NamespaceURI: x.uri})
	AddChild(parent, n)
	for _, a := range x.attrs {
		an := CreateXMLNode(AttributeNode, a[0].(string), XMLSpecific{})
		AddChild(n, an)
		AddChild(an, CreateXMLNode(TextNode, string(a[1].([]byte)), XMLSpecific{}))
	}
	for _, k := range x.kids {
		k.build(n)
	}
	return n
}

// zzSer: canonical text of a subtree: type, prefix, uri, name/data, children in order.
func zzSer(n *Node) string {
	s := "("
	switch n.Type {
	case ElementNode:
		s += "E"
	case TextNode:
		s += "T"
	case AttributeNode:
		s += "A"
	default:
		s += "D"
	}
	if xs, ok := n.FormatSpecific.(XMLSpecific); ok {
		s += "{" + xs.NamespacePrefix + "|" + xs.NamespaceURI + "}"
	}
	s += n.Data
	for c := n.FirstChild; c != nil; c = c.NextSibling {
		s += zzSer(c)
	}
	return s + ")"
}

func zzHasAncestorIn(n *Node, set []*Node) bool {
	for p := n.Parent; p != nil; p = p.Parent {
		for _, s := range set {
			if s == p {
				return true
			}
		}
	}
	return false
}

var zzXPaths = []string{
	"/R/T",
	"//T",
	"/R/T[x='1']",
	"/R/*[x='1']",
	"/R/T[@a='1']",
	"/R/Q/T[x]",
	"//T[x='1']",
	"/R/T[not(x)]",
	"/R/T[x='1'][@a='1']",
	"//T[@a='1'][x]",
	"/R/T[x='1'] [@a='1']",
	"/R/T[x!='\u00e9'][@a='1']",
	"/R/T[x='1']\n\t[@a='1']",
}

// zzXBase: the same paths without the final step's predicates (the candidates), written out
// by hand so that the reference does not depend on the code that splits the expression.
var zzXBase = []string{"/R/T", "//T", "/R/T", "/R/*", "/R/T", "/R/Q/T", "//T", "/R/T", "/R/T", "//T", "/R/T", "/R/T", "/R/T"}

// C04XmlNs: candidates are told apart by their namespace prefix, not only by their local name:
// <R xmlns:p="u:p"> with 2..3 children, each <T> or <p:T>, target xpaths with and without prefix.
func C04XmlNs() {
	xi := zz.NondetChoice("xpath", 4)
	xp := []string{"/R/p:T", "/R/T", "/R/p:T[x='1']", "/R/*[x='1']"}[xi]
	base := []string{"/R/p:T", "/R/T", "/R/p:T", "/R/*"}[xi]
	root := &zzX{name: "R", attrs: [][2]interface{}{{"xmlns:p", []byte("u:p")}}}
	n := 2 + zz.NondetChoice("nkids", 2)
	for i := 0; i < n; i++ {
		k := &zzX{name: "T", kids: []*zzX{zzLeafX()}}
		if zz.NondetBool("textOnly") {
			k.kids = []*zzX{{text: zzVal("tv")}} // no child elements: <T>v</T>
		}
		if zz.NondetBool("prefixed") {
			k.prefix, k.uri = "p", "u:p"
		}
		root.kids = append(root.kids, k)
	}
	refRoot := CreateXMLNode(DocumentNode, "", XMLSpecific{})
	root.buildNs(refRoot)
	cands, err := MatchAll(refRoot, base)
	zz.Assume(err == nil)
	full, err := MatchAll(refRoot, xp)
	zz.Assume(err == nil)
	var want []string
	for _, c := range cands {
		for _, f := range full {
			if f == c {
				want = append(want, zzSer(c))
			}
		}
	}
	zz.Observe("selection", xp, len(cands), len(want))
	sp, err := NewXMLStreamReader(&zzChunkReader{data: root.write(nil), failAt: -1}, xp)
	zz.Assume(err == nil)
	got := 0
	for i := 0; i < n+1; i++ {
		rec, err := sp.Read()
		if err != nil {
			zz.Cover("eof")
			zz.Assert(err == io.EOF && got == len(want), "every node the xpath selects on the whole document was delivered")
			return
		}
		zz.Cover("delivered")
		zz.Assert(got < len(want) && zzSer(rec) == want[got], "delivered node is the next selected node, complete")
		got++
		sp.Release(rec)
	}
	zz.Fail("no terminal result within the read bound")
}

// C04XmlSelect: the records the streaming reader delivers are exactly what the same xpath
// selects on the fully loaded document: outermost candidates only, delivered iff they satisfy
// the predicate themselves, in document order, each with its complete subtree.
func C04XmlSelect() {
	K := zz.Param("K", 2)
	xi := zz.NondetChoice("xpath", len(zzXPaths))
	xp := zzXPaths[xi]
	if f := zz.Param("xpath", -1); f >= 0 {
		zz.Assume(xi == f)
	}
	doc := zzDoc(K)
	// reference: whole document, real xpath engine
	refRoot := CreateXMLNode(DocumentNode, "", XMLSpecific{})
	doc.build(refRoot)
	cands, err := MatchAll(refRoot, zzXBase[xi])
	zz.Assume(err == nil)
	var want []string
	for _, c := range cands {
		if zzHasAncestorIn(c, cands) {
			continue // nested inside another candidate: only the outermost is a candidate
		}
		// the candidate is delivered iff it satisfies the predicate itself: evaluate the full
		// expression on the whole document and look for this very node
		full, err := MatchAll(refRoot, xp)
		zz.Assume(err == nil)
		sel := false
		for _, f := range full {
			if f == c {
				sel = true
			}
		}
		if sel {
			want = append(want, zzSer(c))
		}
	}
	if zz.NondetBool("padded") {
		xp = " " + xp + "\n" // surrounding whitespace is trimmed
	}
	sp, err := NewXMLStreamReader(&zzChunkReader{data: doc.write(nil), failAt: -1}, xp)
	zz.Assume(err == nil)
	got := 0
	for i := 0; i < 2*K+3; i++ {
		n, err := sp.Read()
		if err != nil {
			zz.Cover("eof")
			zz.Assert(err == io.EOF, "well-formed document ends with EOF")
			zz.Assert(got == len(want), "every node the xpath selects on the whole document was delivered")
			return
		}
		zz.Cover("delivered")
		zz.Assert(got < len(want), "nothing is delivered that the whole-document selection does not contain")
		if got < len(want) {
			zz.Assert(zzSer(n) == want[got], "delivered node is the next selected node, complete")
		}
		got++
		sp.Release(n)
	}
	zz.Fail("no terminal result within the read bound")
}

// ---- C08: the XML tree preserves order, names, prefixes, URIs, attributes, text ----

// zzNsDoc: a small document exercising default and prefixed namespaces, re-declaration of
// the same URI under another prefix, attributes (incl. a prefixed one) and mixed content.
func zzNsDoc() *zzX {
	uriA, uriB := "u:a", "u:b"
	root := &zzX{name: "R"}
	var rootAttrs [][2]interface{}
	def := zz.NondetBool("defaultNs")
	if def {
		rootAttrs = append(rootAttrs, [2]interface{}{"xmlns", []byte(uriA)})
		root.uri = uriA
	}
	pfx := zz.NondetBool("prefixNs")
	if pfx {
		rootAttrs = append(rootAttrs, [2]interface{}{"xmlns:p", []byte(uriB)})
	}
	root.attrs = rootAttrs
	// child 1: plain or prefixed element with an attribute and text
	c1 := &zzX{name: "T", kids: []*zzX{{text: zzVal("t1")}}}
	if def {
		c1.uri = uriA
	}
	if pfx && zz.NondetBool("c1prefixed") {
		c1.prefix, c1.uri = "p", uriB
	}
	if zz.NondetBool("c1attr") {
		c1.attrs = append(c1.attrs, [2]interface{}{"a", zzValOpt("a1")})
	}
	root.kids = append(root.kids, c1)
	if zz.NondetBool("mixed") {
		root.kids = append(root.kids, &zzX{text: []byte(" m ")})
	}
	// child 1b: an element that un-declares the default namespace for itself (xmlns=""), then
	// a sibling that is in the outer default namespace again
	if def && zz.NondetBool("undeclare") {
		u := &zzX{name: "U", attrs: [][2]interface{}{{"xmlns", []byte("")}}, kids: []*zzX{{name: "w", kids: []*zzX{{text: zzVal("t3")}}}}}
		root.kids = append(root.kids, u, &zzX{name: "V", uri: uriA, kids: []*zzX{{text: zzVal("t4")}}})
	}
	// child 1c: an element that declares p -> uriB again for itself (same prefix, same URI as the
	// root's declaration) and closes; the sibling after it still relies on the root's declaration
	if pfx && zz.NondetBool("redeclare") {
		in := &zzX{name: "N", prefix: "p", uri: uriB, attrs: [][2]interface{}{{"xmlns:p", []byte(uriB)}}, kids: []*zzX{{text: zzVal("t5")}}}
		root.kids = append(root.kids, in, &zzX{name: "L", prefix: "p", uri: uriB, kids: []*zzX{{text: zzVal("t6")}}})
	}
	// child 2: binds uriB to another prefix q (same URI, later declaration) and uses it
	if zz.NondetBool("rebind") {
		c2 := &zzX{name: "Q", prefix: "q", uri: uriB, attrs: [][2]interface{}{{"xmlns:q", []byte(uriB)}},
			kids: []*zzX{{name: "x", prefix: "q", uri: uriB, kids: []*zzX{{text: zzVal("t2")}}}}}
		root.kids = append(root.kids, c2)
	}
	return root
}

// buildNs: reference tree incl. the namespace-declaration attributes the decoder reports.
func (x *zzX) buildNs(parent *Node) *Node {
	if x.name == "" {
		n := CreateXMLNode(TextNode, string(x.text), XMLSpecific{})
		AddChild(parent, n)
		return n
	}
	n := CreateXMLNode(ElementNode, x.name, XMLSpecific{NamespacePrefix: x.prefix, NamespaceURI: x.uri})
	AddChild(parent, n)
	for _, a := range x.attrs {
		name := a[0].(string)
		var an *Node
		switch {
		case name == "xmlns":
			an = CreateXMLNode(AttributeNode, "xmlns", XMLSpecific{})
		case len(name) > 6 && name[:6] == "xmlns:":
			an = CreateXMLNode(AttributeNode, name[6:], XMLSpecific{NamespacePrefix: "xmlns", NamespaceURI: ""})
		default:
			an = CreateXMLNode(AttributeNode, name, XMLSpecific{})
		}
		AddChild(n, an)
		AddChild(an, CreateXMLNode(TextNode, string(a[1].([]byte)), XMLSpecific{}))
	}
	for _, k := range x.kids {
		k.buildNs(n)
	}
	return n
}

func C08XmlTree() {
	doc := zzNsDoc()
	refRoot := CreateXMLNode(DocumentNode, "", XMLSpecific{})
	want := zzSer(doc.buildNs(refRoot))
	sp, err := NewXMLStreamReader(&zzChunkReader{data: doc.write(nil), failAt: -1}, "/*")
	zz.Assume(err == nil)
	n, err := sp.Read()
	zz.Assert(err == nil && n != nil, "the root element is delivered for target /*")
	zz.Cover("delivered")
	zz.Observe("tree", zzSer(n))
	zz.Assert(zzSer(n) == want, "element order, names, prefixes, URIs, attributes (first, in order) and text as the decoder reports them")
}

// ---- C17: tree size does not grow with the number of records delivered ----

func zzCount(n *Node) int {
	k := 1
	for c := n.FirstChild; c != nil; c = c.NextSibling {
		k += zzCount(c)
	}
	return k
}

// C17Xml: <R> sep (T sep)* </R> with the same record/separator block repeated: what stays
// reachable from the root after the k-th record was delivered and released does not depend
// on k.
func C17Xml() {
	N := zz.Param("N", 3)
	xp := []string{"/R/T", "/R/T[x='1']", "/R/T[@a='1']", "/R/T[@a='1'][x='1']", "//T[x='1']", "/R/T[@a='1']\n\t[x='1']"}[zz.NondetChoice("xpath", 6)]
	sepKind := zz.NondetChoice("sep", 3) // none, newline between records, text
	sep := [][]byte{nil, []byte("\n"), []byte(" t ")}[sepKind]
	doc := []byte("<R>")
	doc = append(doc, sep...)
	for i := 0; i < N; i++ {
		doc = append(doc, []byte("<T a=\"")...)
		doc = append(doc, zzVal("av")...)
		doc = append(doc, []byte("\"><x>")...)
		doc = append(doc, zzVal("xv")...)
		doc = append(doc, []byte("</x>")...)
		if zz.NondetBool("nestedT") {
			// a record that contains another node on the target path
			doc = append(doc, []byte("<T><x>")...)
			doc = append(doc, zzVal("nv")...)
			doc = append(doc, []byte("</x></T>")...)
		}
		doc = append(doc, []byte("</T>")...)
		doc = append(doc, sep...)
	}
	doc = append(doc, []byte("</R>")...)
	sp, err := NewXMLStreamReader(&zzChunkReader{data: doc, failAt: -1}, xp)
	zz.Assume(err == nil)
	first := -1
	for i := 0; i < N+1; i++ {
		n, err := sp.Read()
		if err != nil {
			zz.Cover("eof")
			return
		}
		sp.Release(n)
		size := zzCount(sp.root)
		if first < 0 {
			first = size
		}
		zz.Cover("record")
		// F6: character data between records is attached to the enclosing element and never
		// removed: one more text node per record
		zz.KnownRegion("F6", sepKind != 0)
		zz.Assert(size <= first, "retained tree does not grow with the number of records delivered")
	}
}

// ---- C04: splitting the xpath into path and last filter ----

// specSplitFilter: forward scan. Returns the index where the last top-level [...] group
// starts if the string ends with such a group, else len(s); ok=false if s is not well-formed
// (unterminated quote, unbalanced brackets).
func zzSplitFilter(s []byte) (int, bool) {
	depth := 0
	start := -1    // start of the current top-level group
	lastEnd := -1  // index just after the last completed top-level group
	lastStart := 0 // its start
	var quote byte
	for i := 0; i < len(s); i++ {
		c := s[i]
		if quote != 0 {
			if c == quote {
				quote = 0
			}
			continue
		}
		switch c {
		case '"', '\'':
			quote = c
		case '[':
			if depth == 0 {
				start = i
			}
			depth++
		case ']':
			depth--
			if depth < 0 {
				return 0, false
			}
			if depth == 0 {
				lastStart, lastEnd = start, i+1
			}
		}
	}
	if quote != 0 || depth != 0 {
		return 0, false
	}
	if lastEnd == len(s) && len(s) > 0 {
		return lastStart, true
	}
	return len(s), true
}

// C04FilterSplit: for every well-formed string over {a / [ ] ' " =}, removeLastFilterInXPath
// removes exactly the last top-level [...] group (quotes of either kind may contain the
// other kind and brackets).
func C04FilterSplit() {
	L := zz.Param("L", 6)
	s := zz.NondetBytes("s", L)
	for _, c := range s {
		zz.Assume(zz.ByteIn(c, "a[]'\"="))
	}
	cut, ok := zzSplitFilter(s)
	zz.Assume(ok)
	got := removeLastFilterInXPath(string(s))
	zz.Observe("split", string(s), got)
	zz.Assert(got == string(s[:cut]), "the removed suffix is exactly the last top-level [...] group")
	zz.Cover("split")
}

// C16XmlJsonStream: a failing source under the XML stream reader (real encoding/xml):
// records before the fault (except possibly the last) equal the fault-free run, then a
// non-EOF error that stays (the reader latches it).
func C16XmlStream() {
	K := zz.Param("K", 2)
	doc := zzDoc(K).write(nil)
	spa, err := NewXMLStreamReader(&zzChunkReader{data: doc, failAt: -1}, "/R/T")
	zz.Assume(err == nil)
	var want []string
	for i := 0; i < K+2; i++ {
		n, err := spa.Read()
		if err != nil {
			break
		}
		want = append(want, zzSer(n))
		spa.Release(n)
	}
	failAt := zz.NondetChoice("failAt", len(doc)+1)
	spb, err := NewXMLStreamReader(&zzChunkReader{data: append([]byte{}, doc...), failAt: failAt, ioErr: zzPickIOErr()}, "/R/T")
	zz.Assume(err == nil)
	got := 0
	pending, havePending := "", false
	for i := 0; i < K+3; i++ {
		n, err := spb.Read()
		if err == nil {
			if havePending {
				zz.Assert(got-1 < len(want) && pending == want[got-1], "results before the fault (except possibly the last) equal the fault-free run")
			}
			pending, havePending = zzSer(n), true
			got++
			spb.Release(n)
			continue
		}
		zz.Assert(err != io.EOF, "a failing source never ends in a clean EOF")
		_, err2 := spb.Read()
		zz.Assert(err2 == err, "the stream reader keeps returning the same error")
		zz.Cover("fatal")
		return
	}
	zz.Fail("no error within the read bound")
}

// C03XmlBytes: arbitrary bytes (mostly malformed XML) through the real decoder and the stream
// reader: no panic, a terminal result within a bounded number of Reads, errors are latched.
func C03XmlBytes() {
	zz.HangIsViolation()
	L := zz.Param("L", 5)
	in := zz.NondetBytes("in", L)
	for _, b := range in {
		zz.Assume(zz.ByteIn(b, "<>/a =\"&;!-?[]x:"))
	}
	xp := []string{"/a", "//a", "/a/a[a='x']", "/*"}[zz.NondetChoice("xpath", 4)]
	sp, err := NewXMLStreamReader(&zzChunkReader{data: in, failAt: -1}, xp)
	zz.Assume(err == nil)
	for i := 0; i < L+2; i++ {
		n, err := sp.Read()
		if err != nil {
			zz.Cover("terminal")
			_, err2 := sp.Read()
			zz.Assert(err2 == err, "the terminal error is returned again")
			return
		}
		zz.Cover("record")
		sp.Release(n)
	}
	zz.Fail("no terminal result within L+2 reads")
}

// C09XmlCuts: the XML stream reader (real encoding/xml) gives the same transcript — records,
// their content, the terminal error or EOF — whether the bytes arrive in one Read or cut at
// arbitrary positions: (a) the document family of C04/C16 with symbolic values, (b) arbitrary
// bytes (mostly malformed) over the XML alphabet.
func C09XmlCuts() {
	var in []byte
	xp := "/R/T"
	reads := 0
	if zz.NondetBool("arbitraryBytes") {
		L := zz.Param("L", 4)
		in = zz.NondetBytes("in", L)
		for _, b := range in {
			zz.Assume(zz.ByteIn(b, "<>/a =\"&;x"))
		}
		xp = []string{"/a", "//a"}[zz.NondetChoice("xpath", 2)]
		reads = L + 2
	} else {
		K := zz.Param("K", 2)
		in = zzDoc(K).write(nil)
		reads = K + 2
	}
	zz.Assume(len(in) >= 2)
	one, err := NewXMLStreamReader(&zzChunkReader{data: in, failAt: -1}, xp)
	zz.Assume(err == nil)
	cut, err := NewXMLStreamReader(&zzChunkReader{data: append([]byte{}, in...), failAt: -1, cuts: zzCuts(zz.Param("CUTS", 2), len(in))}, xp)
	zz.Assume(err == nil)
	for i := 0; i < reads; i++ {
		n1, e1 := one.Read()
		n2, e2 := cut.Read()
		zz.Assert((e1 == nil) == (e2 == nil), "same kind of result whatever the chunking")
		if e1 != nil || e2 != nil {
			zz.Cover("terminal")
			zz.Assert((e1 == io.EOF) == (e2 == io.EOF), "EOF under one chunking is EOF under every chunking")
			return
		}
		zz.Cover("record")
		zz.Assert(zzSer(n1) == zzSer(n2), "same record whatever the chunking")
		one.Release(n1)
		cut.Release(n2)
	}
	zz.Fail("no terminal result within the read bound")
}
