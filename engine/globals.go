package main

import (
	"go/types"
	"strings"

	"golang.org/x/tools/go/ssa"
)

func isRepoPkg(p *ssa.Package) bool {
	if p == nil {
		return false
	}
	path := p.Pkg.Path()
	return strings.HasPrefix(path, "github.com/jf-tech/omniparser") || strings.HasPrefix(path, "github.com/jf-tech/go-corelib")
}

// globalCell returns the storage of a package-level variable. Packages of the module under
// analysis (and go-corelib) get fresh state on every path; everything else is initialised
// once per worker and assumed immutable afterwards.
func (e *Exec) globalCell(g *ssa.Global) *Value {
	shared := !isRepoPkg(g.Pkg)
	m := e.globals
	if shared {
		m = e.sharedGlobals
	}
	if c, ok := m[g]; ok {
		return c
	}
	c := new(Value)
	*c = e.zero(g.Type().Underlying().(*types.Pointer).Elem())
	m[g] = c
	if g.Pkg != nil {
		e.ensureInit(g.Pkg, shared)
	}
	return c
}

func (e *Exec) ensureInit(p *ssa.Package, shared bool) {
	done := e.initDone
	if shared {
		done = e.sharedInit
	}
	if done[p] {
		return
	}
	done[p] = true
	initFn := p.Func("init")
	if initFn == nil || initFn.Blocks == nil {
		return
	}
	e.inInit++
	savedDepth := e.depth
	savedCur := e.cur
	func() {
		defer func() {
			e.inInit--
			e.depth = savedDepth
			if r := recover(); r != nil {
				switch x := r.(type) {
				case unsupportedErr:
					e.note("init of " + p.Pkg.Path() + " incomplete: " + x.msg)
				case targetPanic:
					e.note("init of " + p.Pkg.Path() + " panicked: " + x.msg)
				default:
					panic(r)
				}
			}
		}()
		e.initPkg = append(e.initPkg, p)
		defer func() { e.initPkg = e.initPkg[:len(e.initPkg)-1] }()
		e.call(nil, 0, initFn, nil)
	}()
	e.cur = savedCur
}

// ---- guarded pointer sets: merged loads / stores ----

func (e *Exec) guard(t PtrTarget) *Term {
	if t.g == nil {
		return e.ts.True
	}
	return t.g
}

// mergeVal builds ite(g, a, b) for mergeable values.
func samePtr(x, y PtrV) bool {
	if len(x.tgs) != len(y.tgs) {
		return false
	}
	for i := range x.tgs {
		a, b := x.tgs[i], y.tgs[i]
		if a.g != b.g || a.p != b.p || a.idx != b.idx {
			return false
		}
		if (a.arr == nil) != (b.arr == nil) || (len(a.arr) > 0 && len(b.arr) > 0 && &a.arr[0] != &b.arr[0]) {
			return false
		}
	}
	return true
}

func (e *Exec) mergeVal(g *Term, a, b Value) (Value, bool) {
	switch x := a.(type) {
	case *Term:
		y, ok := b.(*Term)
		if !ok || x.width != y.width {
			return nil, false
		}
		return e.ts.Ite(g, x, y), true
	case StrV:
		y, ok := b.(StrV)
		if !ok || len(x.b) != len(y.b) {
			return nil, false
		}
		r := make([]*Term, len(x.b))
		for i := range r {
			r[i] = e.ts.Ite(g, x.b[i], y.b[i])
		}
		return StrV{r}, true
	case PtrV:
		y, ok := b.(PtrV)
		if !ok {
			return nil, false
		}
		if samePtr(x, y) {
			return x, true
		}
		return e.mergePtr(g, x, y), true
	case StructV:
		y, ok := b.(StructV)
		if !ok || len(x) != len(y) {
			return nil, false
		}
		r := make(StructV, len(x))
		for i := range x {
			m, ok := e.mergeVal(g, x[i], y[i])
			if !ok {
				return nil, false
			}
			r[i] = m
		}
		return r, true
	case IfaceV:
		y, ok := b.(IfaceV)
		if !ok {
			return nil, false
		}
		if x.t == nil && y.t == nil {
			return x, true
		}
		if x.t == nil || y.t == nil || !types.Identical(x.t, y.t) {
			return nil, false
		}
		m, ok := e.mergeVal(g, x.v, y.v)
		if !ok {
			return nil, false
		}
		return IfaceV{x.t, m}, true
	case FloatV:
		y, ok := b.(FloatV)
		if ok && x.f == y.f {
			return x, true
		}
		return nil, false
	case SliceV:
		y, ok := b.(SliceV)
		if !ok {
			return nil, false
		}
		if x.data == nil && y.data == nil {
			return x, true
		}
		if len(x.data) == len(y.data) && len(x.data) > 0 && &x.data[0] == &y.data[0] && cap(x.data) == cap(y.data) {
			return x, true
		}
		return nil, false
	case *MapV:
		y, ok := b.(*MapV)
		if ok && x == y {
			return x, true
		}
		return nil, false
	case *Closure:
		y, ok := b.(*Closure)
		if ok && x == y {
			return x, true
		}
		return nil, false
	case TupleV:
		y, ok := b.(TupleV)
		if !ok || len(x) != len(y) {
			return nil, false
		}
		r := make(TupleV, len(x))
		for i := range x {
			m, ok := e.mergeVal(g, x[i], y[i])
			if !ok {
				return nil, false
			}
			r[i] = m
		}
		return r, true
	case ArrayV:
		y, ok := b.(ArrayV)
		if !ok || len(x) != len(y) {
			return nil, false
		}
		r := make(ArrayV, len(x))
		for i := range x {
			m, ok := e.mergeVal(g, x[i], y[i])
			if !ok {
				return nil, false
			}
			r[i] = m
		}
		return r, true
	case *ssa.Function:
		y, ok := b.(*ssa.Function)
		if ok && x == y {
			return x, true
		}
		return nil, false
	case nil:
		if b == nil {
			return nil, true
		}
	}
	return nil, false
}

func (e *Exec) mergePtr(g *Term, a, b PtrV) PtrV {
	ts := e.ts
	var out PtrV
	add := func(gg *Term, t PtrTarget) {
		gg = ts.And(gg, e.guard(t))
		if gg.IsFalse() {
			return
		}
		for i := range out.tgs {
			o := &out.tgs[i]
			if o.p == t.p && o.idx == t.idx && ((o.arr == nil && t.arr == nil) || (len(o.arr) > 0 && len(t.arr) > 0 && &o.arr[0] == &t.arr[0])) {
				o.g = ts.Or(o.g, gg)
				return
			}
		}
		out.tgs = append(out.tgs, PtrTarget{g: gg, p: t.p, arr: t.arr, idx: t.idx})
	}
	at, bt := a.tgs, b.tgs
	if len(at) == 0 {
		at = []PtrTarget{{}}
	}
	if len(bt) == 0 {
		bt = []PtrTarget{{}}
	}
	for _, t := range at {
		add(g, t)
	}
	ng := ts.Not(g)
	for _, t := range bt {
		add(ng, t)
	}
	if len(out.tgs) == 1 {
		out.tgs[0].g = nil
		if out.tgs[0].isNil() {
			return PtrV{}
		}
	}
	return out
}

// mergedLoad: ITE-merge the pointees of all targets. Requires every non-nil target to hold
// a mergeable value; the nil targets must be infeasible or are split off as a panic path.
func (e *Exec) mergedLoad(p PtrV) (Value, bool) {
	var nilG *Term = e.ts.False
	var live []PtrTarget
	for _, t := range p.tgs {
		if t.isNil() {
			nilG = e.ts.Or(nilG, e.guard(t))
			continue
		}
		if t.p == nil {
			return nil, false
		}
		live = append(live, t)
	}
	if len(live) == 0 {
		return nil, false
	}
	if !nilG.IsFalse() && e.pureDepth == 0 {
		if e.decide(nilG) {
			panic(targetPanic{msg: "nil pointer dereference", pos: "merged load at " + e.where()})
		}
	}
	acc := copyVal(*live[len(live)-1].p)
	for i := len(live) - 2; i >= 0; i-- {
		m, ok := e.mergeVal(e.guard(live[i]), copyVal(*live[i].p), acc)
		if !ok {
			return nil, false
		}
		acc = m
	}
	return acc, true
}

func (e *Exec) mergedStore(T types.Type, p PtrV, v Value) bool {
	var nilG *Term = e.ts.False
	var live []PtrTarget
	for _, t := range p.tgs {
		if t.isNil() {
			nilG = e.ts.Or(nilG, e.guard(t))
			continue
		}
		if t.p == nil {
			return false
		}
		live = append(live, t)
	}
	if len(live) == 0 {
		return false
	}
	// check mergeability first (no partial effects)
	merged := make([]Value, len(live))
	for i, t := range live {
		m, ok := e.mergeVal(e.guard(t), v, copyVal(*t.p))
		if !ok {
			return false
		}
		merged[i] = m
	}
	if !nilG.IsFalse() {
		if e.decide(nilG) {
			panic(targetPanic{msg: "nil pointer dereference", pos: "merged store"})
		}
	}
	for i, t := range live {
		if e.frozen != nil && e.frozen[t.p] {
			e.noteFrozenWrite(nil, nil)
		}
		e.storeInto(T, t.p, merged[i])
	}
	return true
}
