package errs

// Conformance harnesses for the engine itself: small Go programs whose Observe traces must be
// identical in the engine and natively (gosmt selftest). They exercise the language features
// and library models the property harnesses rely on.

import (
	"bytes"
	"errors"
	"fmt"
	"sort"
	"strconv"
	"strings"
	"unicode/utf8"

	zz "github.com/jf-tech/omniparser/zzverif"
)

type stShape interface {
	Area() int
	Name() string
}
type stRect struct{ w, h int }
type stSq struct{ s int }

func (r stRect) Area() int    { return r.w * r.h }
func (r stRect) Name() string { return "rect" }
func (s *stSq) Area() int     { return s.s * s.s }
func (s *stSq) Name() string  { return "sq" }

type stNode struct {
	v    int
	next *stNode
}

func SelftestCore() {
	x := zz.NondetInt("x", -3, 3)
	b := zz.NondetByte("b")
	zz.Assume(zz.ByteIn(b, "aZ9 "))
	// integers: wrap-around, shifts, division semantics
	i8 := int8(x * 50)
	u8 := uint8(x)
	zz.Observe("ints", x*x-2*x, x/2, x%2, x>>1, x<<2, i8, u8, uint16(x)>>3, ^x, x&5, x|8, x&^3)
	// strings and bytes
	s := "p" + string([]byte{b}) + "q"
	zz.Observe("str", s, len(s), s[1:], strings.ToUpper("k")+s, strings.Index(s, "q"), strings.HasPrefix(s, "p"), s < "pa", s == "paq")
	bs := []byte(s)
	bs = append(bs, 'z')
	c := make([]byte, 2)
	n := copy(c, bs[1:])
	zz.Observe("bytes", string(bs), n, string(c), bytes.Equal(c, []byte("aq")), cap(bs[:2]) >= 2)
	// slices alias their backing array
	arr := [5]int{1, 2, 3, 4, 5}
	sl := arr[1:3]
	sl = append(sl, 99)
	sl[0] = 7
	zz.Observe("alias", arr[1], arr[3], len(sl), cap(sl))
	// maps
	m := map[string]int{"a": 1}
	m[string([]byte{b})] += 10
	_, has := m["Z"]
	delete(m, "zz")
	zz.Observe("map", len(m), m["a"], has)
	keys := []string{}
	for k := range m {
		keys = append(keys, k)
	}
	sort.Strings(keys)
	zz.Observe("keys", strings.Join(keys, ","))
	// interfaces, method sets, type switches
	var shapes []stShape
	shapes = append(shapes, stRect{2, x + 4}, &stSq{3})
	tot := 0
	for _, sh := range shapes {
		switch v := sh.(type) {
		case stRect:
			tot += v.Area()
		case *stSq:
			tot += v.Area() * 100
		}
	}
	_, isRect := shapes[1].(stRect)
	zz.Observe("iface", tot, shapes[0].Name(), isRect)
	// pointers, linked structures, closures
	var head *stNode
	for i := 0; i < 3; i++ {
		head = &stNode{v: i + x, next: head}
	}
	sum := 0
	add := func(d int) { sum += d }
	for p := head; p != nil; p = p.next {
		add(p.v)
	}
	zz.Observe("list", sum, head.next.next.next == nil)
	// defer / recover / named results
	zz.Observe("recover", stSafeDiv(10, x), stSafeIndex([]int{1, 2}, x))
	// utf8 and runes
	r, sz := utf8.DecodeRuneInString("é" + s)
	cnt := 0
	for range "aé€" + s {
		cnt++
	}
	zz.Observe("utf8", r, sz, cnt, string(rune(0x20AC)), []rune("é")[0], utf8.RuneLen(rune(b)))
	// strconv, errors, fmt on concrete values
	v, err := strconv.Atoi("12" + "3")
	_, err2 := strconv.Atoi("x")
	e := fmt.Errorf("wrap %d", 5)
	zz.Observe("conv", v, err == nil, err2 != nil, e.Error(), errors.New("a").Error(), strconv.Quote("a\"b"), strconv.FormatInt(255, 16))
	// struct values are copied, arrays too
	a1 := stRect{1, 2}
	a2 := a1
	a2.w = 9
	g1 := [2]int{1, 2}
	g2 := g1
	g2[0] = 5
	zz.Observe("copy", a1.w, a2.w, g1[0], g2[0], a1 == stRect{1, 2})
	// switch / fallthrough / labelled loops
	acc := 0
outer:
	for i := 0; i < 4; i++ {
		for j := 0; j < 4; j++ {
			if j == 2 {
				continue outer
			}
			if i == 3 {
				break outer
			}
			acc += i*10 + j
		}
	}
	switch {
	case x > 0:
		acc++
		fallthrough
	case x == 0:
		acc += 2
	default:
		acc += 4
	}
	zz.Observe("ctl", acc)
}

func stSafeDiv(a, b int) (res int) {
	defer func() {
		if r := recover(); r != nil {
			res = -1
		}
	}()
	return a / b
}

func stSafeIndex(s []int, i int) (res int) {
	defer func() {
		if recover() != nil {
			res = -7
		}
	}()
	return s[i]
}
