package main

// Pure (merged) evaluation: functions whose name starts with "spec" or "pure" — ghost code:
// invariants, reference models, abstraction functions — are executed without forking.
// At a symbolic branch both arms are evaluated up to the branch's immediate post-dominator
// and the SSA environments are merged with ite (if-conversion). Such functions must not
// store to memory under a symbolic branch; loads are total (a nil target contributes
// nothing). Everything called from a pure function is evaluated the same way.

import (
	"fmt"
	"go/token"
	"strings"

	"golang.org/x/tools/go/ssa"
)

func isPureName(fn *ssa.Function) bool {
	n := fn.Name()
	return strings.HasPrefix(n, "spec") || strings.HasPrefix(n, "pure")
}

type pureOut struct {
	g    *Term
	ret  bool
	val  Value
	env  map[ssa.Value]Value
	pred *ssa.BasicBlock
}

// ipdoms computes immediate post-dominators (nil = virtual exit).
func (e *Exec) ipdoms(fn *ssa.Function) map[*ssa.BasicBlock]*ssa.BasicBlock {
	if m, ok := e.ipdomCache[fn]; ok {
		return m
	}
	n := len(fn.Blocks)
	// post-dominator sets as bitsets over n blocks + virtual exit (index n)
	type set []bool
	full := func() set {
		s := make(set, n+1)
		for i := range s {
			s[i] = true
		}
		return s
	}
	pd := make([]set, n+1)
	for i := 0; i < n; i++ {
		pd[i] = full()
	}
	pd[n] = make(set, n+1)
	pd[n][n] = true
	succs := func(b *ssa.BasicBlock) []int {
		if len(b.Succs) == 0 {
			return []int{n}
		}
		var r []int
		for _, s := range b.Succs {
			r = append(r, s.Index)
		}
		return r
	}
	changed := true
	for changed {
		changed = false
		for i := n - 1; i >= 0; i-- {
			b := fn.Blocks[i]
			ns := full()
			for _, s := range succs(b) {
				for k := range ns {
					ns[k] = ns[k] && pd[s][k]
				}
			}
			ns[i] = true
			for k := range ns {
				if ns[k] != pd[i][k] {
					changed = true
					break
				}
			}
			pd[i] = ns
		}
	}
	res := map[*ssa.BasicBlock]*ssa.BasicBlock{}
	for i := 0; i < n; i++ {
		// ipdom = the strict post-dominator that is post-dominated by all other strict post-dominators
		var cands []int
		for k := 0; k <= n; k++ {
			if k != i && pd[i][k] {
				cands = append(cands, k)
			}
		}
		best := -1
		for _, c := range cands {
			ok := true
			for _, d := range cands {
				if d != c && !pd[c][d] {
					ok = false
					break
				}
			}
			if ok {
				best = c
				break
			}
		}
		if best >= 0 && best < n {
			res[fn.Blocks[i]] = fn.Blocks[best]
		} else {
			res[fn.Blocks[i]] = nil
		}
	}
	if e.ipdomCache == nil {
		e.ipdomCache = map[*ssa.Function]map[*ssa.BasicBlock]*ssa.BasicBlock{}
	}
	e.ipdomCache[fn] = res
	return res
}

func cloneEnv(m map[ssa.Value]Value) map[ssa.Value]Value {
	c := make(map[ssa.Value]Value, len(m)+8)
	for k, v := range m {
		c[k] = v
	}
	return c
}

func (e *Exec) callPure(caller *frame, pos token.Pos, fn *ssa.Function, args []Value, env []Value) Value {
	if fn.Blocks == nil {
		panic(unsupported("no body for " + fn.String()))
	}
	e.depth++
	if e.depth > e.cfg.MaxDepth {
		e.depth--
		panic(pathEnd{"unwind:call-depth " + fn.String()})
	}
	e.pureDepth++
	defer func() { e.pureDepth--; e.depth-- }()
	e.funcsSeen[fn] = true
	fr := &frame{fn: fn, env: make(map[ssa.Value]Value, 32), caller: caller, pos: pos, visits: map[int]int{}}
	for i, p := range fn.Params {
		fr.env[p] = args[i]
	}
	for i, fv := range fn.FreeVars {
		fr.env[fv] = env[i]
	}
	for _, l := range fn.Locals {
		cell := new(Value)
		fr.env[l] = mkPtr(cell)
	}
	outs := e.pureRegion(fr, fn.Blocks[0], nil, nil, e.ts.True, false)
	if len(outs) == 0 {
		panic(unsupported("pure function " + fn.String() + " has no return under its guards"))
	}
	acc := outs[len(outs)-1].val
	for i := len(outs) - 2; i >= 0; i-- {
		m, ok := e.mergeVal(outs[i].g, outs[i].val, acc)
		if !ok {
			panic(unsupported(fmt.Sprintf("pure function %s: cannot merge results %T / %T", fn, outs[i].val, acc)))
		}
		acc = m
	}
	return acc
}

func (e *Exec) pureRegion(fr *frame, b, prev, stop *ssa.BasicBlock, g *Term, skipPhis bool) []pureOut {
	for {
		if g.IsFalse() {
			return nil
		}
		if b == stop && !skipPhis {
			return []pureOut{{g: g, env: fr.env, pred: prev}}
		}
		fr.visits[b.Index]++
		if fr.visits[b.Index] > 4*e.cfg.Unwind {
			panic(pathEnd{fmt.Sprintf("unwind:%s block %d (pure)", fr.fn, b.Index)})
		}
		nphi := 0
		for _, in := range b.Instrs {
			if _, ok := in.(*ssa.Phi); !ok {
				break
			}
			nphi++
		}
		if !skipPhis {
			var vals []Value
			for i := 0; i < nphi; i++ {
				phi := b.Instrs[i].(*ssa.Phi)
				for k, p := range b.Preds {
					if p == prev {
						vals = append(vals, e.get(fr, phi.Edges[k]))
						break
					}
				}
			}
			for i := 0; i < nphi; i++ {
				fr.env[b.Instrs[i].(*ssa.Phi)] = vals[i]
			}
		}
		skipPhis = false
		var term ssa.Instruction
		for _, in := range b.Instrs[nphi:] {
			e.steps++
			e.curFrame, e.curInstr = fr, in
			switch in.(type) {
			case *ssa.If, *ssa.Jump, *ssa.Return, *ssa.Panic:
				term = in
			default:
				e.visit(fr, in)
			}
		}
		switch t := term.(type) {
		case *ssa.Return:
			var v Value
			switch len(t.Results) {
			case 0:
			case 1:
				v = e.get(fr, t.Results[0])
			default:
				tv := make(TupleV, len(t.Results))
				for i, r := range t.Results {
					tv[i] = e.get(fr, r)
				}
				v = tv
			}
			return []pureOut{{g: g, ret: true, val: v}}
		case *ssa.Panic:
			if e.pureFork == 0 {
				e.visit(fr, t)
			}
			// a panic under a symbolic guard inside ghost code: the guard must be infeasible;
			// it is reported as an assertion so that it cannot pass silently
			e.pureFork, e.pureDepth = 0, 0
			e.assertProp(e.ts.Not(g), "ghost code panics under a feasible guard in "+fr.fn.Name(), e.where())
			panic(pathEnd{"ghost-panic"})
		case *ssa.Jump:
			prev, b = b, b.Succs[0]
		case *ssa.If:
			c := e.get(fr, t.Cond).(*Term)
			if c.IsConst() {
				if c.val == 1 {
					prev, b = b, b.Succs[0]
				} else {
					prev, b = b, b.Succs[1]
				}
				continue
			}
			if v, ok := e.lookupKnown(c); ok {
				if v {
					prev, b = b, b.Succs[0]
				} else {
					prev, b = b, b.Succs[1]
				}
				continue
			}
			J := e.ipdoms(fr.fn)[b]
			if J == stop {
				// the enclosing region already merges at this join
				J = stop
			}
			e.pureFork++
			frT := &frame{fn: fr.fn, env: cloneEnv(fr.env), caller: fr.caller, pos: fr.pos, visits: cloneVisits(fr.visits)}
			outsT := e.pureRegion(frT, b.Succs[0], b, J, e.ts.And(g, c), false)
			frF := &frame{fn: fr.fn, env: cloneEnv(fr.env), caller: fr.caller, pos: fr.pos, visits: cloneVisits(fr.visits)}
			outsF := e.pureRegion(frF, b.Succs[1], b, J, e.ts.And(g, e.ts.Not(c)), false)
			e.pureFork--
			var rets, reached []pureOut
			for _, o := range append(outsT, outsF...) {
				if o.ret {
					rets = append(rets, o)
				} else {
					reached = append(reached, o)
				}
			}
			if len(reached) == 0 {
				return rets
			}
			if J == stop {
				// hand the un-merged outs to the enclosing region (it merges at the same block)
				return append(rets, reached...)
			}
			gJ := e.mergeReached(fr, reached, J)
			rest := e.pureRegion(fr, J, nil, stop, gJ, true)
			return append(rets, rest...)
		default:
			panic("engine: pure region: block without terminator")
		}
	}
}

func cloneVisits(m map[int]int) map[int]int {
	c := make(map[int]int, len(m))
	for k, v := range m {
		c[k] = v
	}
	return c
}

// mergeReached merges the environments of all outs that reached block J into fr.env,
// evaluates J's phis per incoming edge, and returns the disjunction of the guards.
func (e *Exec) mergeReached(fr *frame, outs []pureOut, J *ssa.BasicBlock) *Term {
	gJ := e.ts.False
	for _, o := range outs {
		gJ = e.ts.Or(gJ, o.g)
	}
	last := outs[len(outs)-1]
	merged := make(map[ssa.Value]Value, len(last.env))
	for k, v := range last.env {
		acc := v
		ok := true
		for i := len(outs) - 2; i >= 0; i-- {
			vi, have := outs[i].env[k]
			if !have {
				ok = false
				break
			}
			m, mok := e.mergeVal(outs[i].g, vi, acc)
			if !mok {
				// value differs and cannot be merged: it must be dead after the join
				ok = false
				break
			}
			acc = m
		}
		if ok {
			merged[k] = acc
		}
	}
	// phis of J
	for _, in := range J.Instrs {
		phi, ok := in.(*ssa.Phi)
		if !ok {
			break
		}
		edge := func(o pureOut) Value {
			for k, p := range J.Preds {
				if p == o.pred {
					sub := &frame{fn: fr.fn, env: o.env}
					return e.get(sub, phi.Edges[k])
				}
			}
			panic("engine: pure merge: predecessor not found")
		}
		acc := edge(last)
		for i := len(outs) - 2; i >= 0; i-- {
			m, mok := e.mergeVal(outs[i].g, edge(outs[i]), acc)
			if !mok {
				panic(unsupported(fmt.Sprintf("pure merge: phi %s in %s not mergeable (%T)", phi.Name(), fr.fn, acc)))
			}
			acc = m
		}
		merged[phi] = acc
	}
	fr.env = merged
	return gJ
}
