package transform

import (
	"errors"
	"strconv"
	"github.com/jf-tech/omniparser/customfuncs"
	"github.com/jf-tech/omniparser/idr"
	"github.com/jf-tech/omniparser/transformctx"
	zz "github.com/jf-tech/omniparser/zzverif"
)

func zzS(s string) *string { return &s }

func zzRT(s string) *resultType {
	r := resultType(s)
	return &r
}

// zzComputeDeclHash replaces computeDeclHash (json.Marshal + uuid) in the engine: the hash is
// a canonical rendering of the declaration's public content, so "equal public content ⇔
// equal hash" — the contract of the real function — holds by construction.
func zzComputeDeclHash(decl *Decl, declHashes map[string]string) string {
	return "h" + zzCanon(decl)
}

func zzCanon(d *Decl) string {
	if d == nil {
		return "~"
	}
	s := "{"
	add := func(tag string, p *string) {
		if p != nil {
			s += tag + "=" + *p + ";"
		}
	}
	add("const", d.Const)
	add("ext", d.External)
	add("xp", d.XPath)
	if d.XPathDynamic != nil {
		s += "xd=" + zzCanon(d.XPathDynamic) + ";"
	}
	if d.CustomFunc != nil {
		s += "cf=" + d.CustomFunc.Name + "("
		for _, a := range d.CustomFunc.Args {
			s += zzCanon(a) + ","
		}
		s += ")"
		if d.CustomFunc.IgnoreError {
			s += "!"
		}
		s += ";"
	}
	add("tpl", d.Template)
	if d.Object != nil {
		s += "obj("
		// canonical order: the names used in these harnesses, in a fixed order
		for _, k := range zzNames {
			if c, ok := d.Object[k]; ok {
				s += k + ":" + zzCanon(c) + ","
			}
		}
		s += ");"
	}
	if d.Array != nil {
		s += "arr("
		for _, c := range d.Array {
			s += zzCanon(c) + ","
		}
		s += ");"
	}
	if d.ResultType != nil {
		s += "t=" + string(*d.ResultType) + ";"
	}
	if d.NoTrim {
		s += "nt;"
	}
	if d.KeepEmptyOrNull {
		s += "ke;"
	}
	return s + "}"
}

var zzNames = []string{"a", "arr", "b", "c", "d", "k", "p", "q", "u", "v", "x", "y", "z", "p%q", "m.n", "r%", "s.t", "%."}

// custom functions registered for the harness schemas
func zzCat(_ *transformctx.Ctx, a, b string) (string, error) { return a + "+" + b, nil }
func zzVar(_ *transformctx.Ctx, xs ...string) (string, error) {
	r := ""
	for _, x := range xs {
		r += "<" + x + ">"
	}
	return r, nil
}
func zzNodeName(_ *transformctx.Ctx, n *idr.Node, suffix string) (string, error) {
	return n.Data + suffix, nil
}

func zzOnlyCtx(_ *transformctx.Ctx) (string, error) { return "ctx-only", nil }

// zzMixed: a fixed parameter followed by a variadic one (the shape of the built-in javascript)
func zzMixed(_ *transformctx.Ctx, prefix string, rest ...string) (string, error) {
	return prefix + ":" + strconv.Itoa(len(rest)), nil
}

// zzFailIf fails for the argument "1" (a function that rejects some records' data)
func zzFailIf(_ *transformctx.Ctx, a string) (string, error) {
	if a == "1" {
		return "", errors.New("rejected")
	}
	return "ok:" + a, nil
}

var zzFuncs = customfuncs.CustomFuncs{"cat": zzCat, "var": zzVar, "nodename": zzNodeName, "onlyctx": zzOnlyCtx, "mixed": zzMixed, "failif": zzFailIf}

// zzValidate runs the real schema validation over hand-built declarations.
func zzValidate(decls map[string]*Decl) *Decl {
	ctx := &validateCtx{Decls: decls, customFuncs: zzFuncs, declHashes: map[string]string{}}
	fo, err := ctx.validateDecl(finalOutput, decls[finalOutput], []string{finalOutput})
	zz.Assume(err == nil)
	linkParent(fo)
	return fo
}

func zzVObj() *Decl { return &Decl{Object: map[string]*Decl{"v": {XPath: zzS("v")}}} }

// zzSchema: the schema family (textually identical declarations at different positions,
// templates, arrays, xpath_dynamic, custom functions, casts and flags).
func zzSchema(k int) map[string]*Decl {
	switch k {
	case 0:
		return map[string]*Decl{finalOutput: {Object: map[string]*Decl{
			"a": {XPath: zzS("A[1]/v")},
			"b": {XPath: zzS("B"), ResultType: zzRT("int")},
		}}}
	case 1: // identical object text under an array (no own query) and under an object (own query)
		return map[string]*Decl{finalOutput: {Object: map[string]*Decl{
			"arr": {Array: []*Decl{{XPath: zzS("A"), Object: map[string]*Decl{"v": {XPath: zzS("v")}}}}},
			"z": {XPath: zzS("A[1]"), Object: map[string]*Decl{
				"k": {XPath: zzS("A"), Object: map[string]*Decl{"v": {XPath: zzS("v")}}}}},
		}}}
	case 2: // one template referenced from two anchors
		return map[string]*Decl{
			"t1": zzVObj(),
			finalOutput: {Object: map[string]*Decl{
				"x": {XPath: zzS("A[1]"), Template: zzS("t1")},
				"y": {XPath: zzS("A[1]/A"), Template: zzS("t1")},
			}}}
	case 3: // identical children under different anchors
		return map[string]*Decl{finalOutput: {Object: map[string]*Decl{
			"p": {XPath: zzS("A[1]"), Object: map[string]*Decl{"v": {XPath: zzS("v")}}},
			"q": {XPath: zzS("A[1]/A"), Object: map[string]*Decl{"v": {XPath: zzS("v")}}},
		}}}
	case 4: // custom functions, positional args, absent arg
		return map[string]*Decl{finalOutput: {Object: map[string]*Decl{
			"u": {CustomFunc: &CustomFuncDecl{Name: "cat", Args: []*Decl{{XPath: zzS("B")}, {Const: zzS("x")}}}},
			"v": {CustomFunc: &CustomFuncDecl{Name: "var", Args: []*Decl{{XPath: zzS("A[1]/v")}, {XPath: zzS("NOPE")}}}},
			"d": {XPath: zzS("A[1]"), CustomFunc: &CustomFuncDecl{Name: "nodename", Args: []*Decl{{Const: zzS("!")}}}},
		}}}
	case 5: // xpath_dynamic and the same field with a static xpath
		return map[string]*Decl{finalOutput: {Object: map[string]*Decl{
			"d": {XPathDynamic: &Decl{Const: zzS("B")}},
			"b": {XPath: zzS("B")},
		}}}
	case 6: // arrays: const + fields, flags on elements
		return map[string]*Decl{finalOutput: {Object: map[string]*Decl{
			"arr": {Array: []*Decl{
				{Const: zzS("k")},
				{XPath: zzS("A/v"), NoTrim: true},
				{XPath: zzS("B"), KeepEmptyOrNull: true},
			}},
		}}}
	case 7: // field with several matches: per-record failure
		return map[string]*Decl{finalOutput: {Object: map[string]*Decl{
			"a": {XPath: zzS("A/v")},
			"b": {XPath: zzS("B")},
		}}}
	case 8: // a failing xpath_dynamic (swallowed) next to the same text as an ordinary field
		return map[string]*Decl{finalOutput: {Object: map[string]*Decl{
			"a": {XPathDynamic: &Decl{XPath: zzS("//v")}},
			"b": {XPath: zzS("//v")},
			"c": {Const: zzS("c")},
		}}}
	case 9: // templates whose body is an empty container
		return map[string]*Decl{
			"t2": {Array: []*Decl{}},
			"t3": {Object: map[string]*Decl{}},
			finalOutput: {Object: map[string]*Decl{
				"x": {Template: zzS("t2")},
				"y": {Template: zzS("t3")},
				"c": {Const: zzS("c")},
			}}}
	case 10: // an array with more than nine elements
		var elems []*Decl
		for _, v := range []string{"e01", "e02", "e03", "e04", "e05", "e06", "e07", "e08", "e09", "e10", "e11", "e12"} {
			elems = append(elems, &Decl{Const: zzS(v)})
		}
		return map[string]*Decl{finalOutput: {Object: map[string]*Decl{"arr": {Array: elems}}}}
	case 12: // ignore_error: inline, through a template, and next to a textually identical strict twin
		return map[string]*Decl{
			"t4": {CustomFunc: &CustomFuncDecl{Name: "failif", Args: []*Decl{{XPath: zzS("A[1]/A/v")}}, IgnoreError: true}},
			finalOutput: {Object: map[string]*Decl{
				"a": {CustomFunc: &CustomFuncDecl{Name: "failif", Args: []*Decl{{XPath: zzS("A[1]/A/v")}}, IgnoreError: true}},
				"x": {Template: zzS("t4")},
				"c": {Const: zzS("c")},
			}}}
	case 13: // the lenient call first, then the same call text without ignore_error
		return map[string]*Decl{finalOutput: {Object: map[string]*Decl{
			"a": {CustomFunc: &CustomFuncDecl{Name: "failif", Args: []*Decl{{XPath: zzS("A[1]/A/v")}}, IgnoreError: true}},
			"b": {CustomFunc: &CustomFuncDecl{Name: "failif", Args: []*Decl{{XPath: zzS("A[1]/A/v")}}}},
		}}}
	case 15: // ignore_error reached only through a template
		return map[string]*Decl{
			"t5": {CustomFunc: &CustomFuncDecl{Name: "failif", Args: []*Decl{{XPath: zzS("A[1]/A/v")}}, IgnoreError: true}},
			finalOutput: {Object: map[string]*Decl{
				"x": {Template: zzS("t5")},
				"c": {Const: zzS("c")},
			}}}
	case 16: // a field and an empty object with the same xpath: different declarations
		return map[string]*Decl{finalOutput: {Object: map[string]*Decl{
			"a": {XPath: zzS("B")},
			"b": {XPath: zzS("B"), Object: map[string]*Decl{}},
			"c": {XPath: zzS("B"), Array: []*Decl{}},
		}}}
	case 17: // the same declaration with and without keep_empty_or_null, on the same node
		return map[string]*Decl{finalOutput: {Object: map[string]*Decl{
			"a": {XPath: zzS("B")},
			"b": {XPath: zzS("B"), KeepEmptyOrNull: true},
			"c": {XPath: zzS("B"), NoTrim: true},
		}}}
	case 14: // field names with the characters the fqdn escaping touches
		return map[string]*Decl{finalOutput: {Object: map[string]*Decl{
			"p%q": {XPath: zzS("B")},
			"m.n": {XPath: zzS("A[1]"), Object: map[string]*Decl{"r%": {XPath: zzS("v")}, "s.t": {Const: zzS("k")}}},
			"%.":  {Const: zzS("c")},
		}}}
	default: // casts and keep_empty_or_null on a nested object
		return map[string]*Decl{finalOutput: {Object: map[string]*Decl{
			"a": {XPath: zzS("A[1]/v"), ResultType: zzRT("boolean")},
			"b": {XPath: zzS("B"), ResultType: zzRT("string"), KeepEmptyOrNull: true},
			"c": {XPath: zzS("NOPE"), Object: map[string]*Decl{"v": {XPath: zzS("v")}}, KeepEmptyOrNull: true},
		}}}
	}
}

const zzNumSchemas = 18

func zzText(name string) string { return zzTextN(name, 2) }

func zzTextN(name string, n int) string {
	b := zz.NondetBytes(name, n)
	for _, c := range b {
		zz.Assume(zz.ByteIn(c, " a1t08"))
	}
	return string(b)
}

func zzElem(parent *idr.Node, name string) *idr.Node {
	n := idr.CreateNode(idr.ElementNode, name)
	idr.AddChild(parent, n)
	return n
}

func zzLeaf(parent *idr.Node, name, text string) *idr.Node {
	n := zzElem(parent, name)
	idr.AddChild(n, idr.CreateNode(idr.TextNode, text))
	return n
}

// zzRecord: <T><A><v>?</v><A><v>?</v></A></A>[<A><v>?</v></A>]<B>?</B></T>
func zzRecord() *idr.Node {
	root := idr.CreateNode(idr.DocumentNode, "")
	t := zzElem(root, "T")
	a1 := zzElem(t, "A")
	zzLeaf(a1, "v", zzText("v1"))
	a11 := zzElem(a1, "A")
	zzLeaf(a11, "v", zzTextN("v2", 1))
	if zz.NondetBool("secondA") {
		a2 := zzElem(t, "A")
		zzLeaf(a2, "v", zzTextN("v3", 1))
	}
	zzLeaf(t, "B", zzText("b"))
	return t
}

func zzDeepEq(a, b interface{}) bool {
	switch x := a.(type) {
	case nil:
		return b == nil
	case string:
		y, ok := b.(string)
		return ok && x == y
	case int64:
		y, ok := b.(int64)
		return ok && x == y
	case float64:
		y, ok := b.(float64)
		return ok && x == y
	case bool:
		y, ok := b.(bool)
		return ok && x == y
	case map[string]interface{}:
		y, ok := b.(map[string]interface{})
		if !ok || len(x) != len(y) {
			return false
		}
		for _, k := range zzNames {
			xv, xin := x[k]
			yv, yin := y[k]
			if xin != yin {
				return false
			}
			if xin && !zzDeepEq(xv, yv) {
				return false
			}
		}
		return true
	case []interface{}:
		y, ok := b.([]interface{})
		if !ok || len(x) != len(y) {
			return false
		}
		for i := range x {
			if !zzDeepEq(x[i], y[i]) {
				return false
			}
		}
		return true
	}
	return false
}

// C13TransformCache: the per-record result cache is invisible: ParseNode with the cache on
// equals ParseNode with the cache off, for every schema of the family and every record.
func C13TransformCache() {
	zz.MapOrder(0)
	k := zz.NondetChoice("schema", zzNumSchemas)
	if f := zz.Param("schema", -1); f >= 0 {
		zz.Assume(k == f)
	}
	fo := zzValidate(zzSchema(k))
	if zz.Param("FREEZE", 0) == 1 {
		zz.Freeze(fo)
	}
	// the absolute value of node IDs is process history (how many nodes earlier transforms
	// created): low, around 2^16 - 10240 (where a code-point rendering of the ID would hit the
	// surrogate gap) and past the last code point
	zzSpinNodeIDs([]int{0, 55290, 1114105}[zz.NondetChoice("idBase", zz.Param("IDBASES", 3))])
	rec := zzRecord()
	ctx := &transformctx.Ctx{}
	on := NewParseCtx(ctx, zzFuncs, nil)
	off := NewParseCtx(ctx, zzFuncs, nil)
	off.disableTransformCache = true
	v1, e1 := on.ParseNode(rec, fo)
	v2, e2 := off.ParseNode(rec, fo)
	zz.Observe("errs", e1 == nil, e2 == nil)
	zz.Assert((e1 == nil) == (e2 == nil), "cache on/off: same success or per-record failure")
	if e1 == nil && e2 == nil {
		zz.Cover("ok")
		zz.Assert(zzDeepEq(v1, v2), "cache on/off: same value")
	} else {
		zz.Cover("failed")
	}
}

// ZZValidate / ZZFuncs / ZZRT: exported for harnesses in other packages (the overlay makes
// them part of package transform without touching /repo).
func ZZValidate(decls map[string]*Decl) *Decl { return zzValidate(decls) }

var ZZFuncs = zzFuncs

func ZZRT(s string) *resultType { return zzRT(s) }

// zzFixedRecord: <T><A><v>a1</v><A><v> </v></A></A><B>t</B></T>
func zzFixedRecord() *idr.Node {
	root := idr.CreateNode(idr.DocumentNode, "")
	t := zzElem(root, "T")
	a1 := zzElem(t, "A")
	zzLeaf(a1, "v", "a1")
	zzLeaf(zzElem(a1, "A"), "v", " ")
	zzLeaf(t, "B", "t")
	return t
}

// zzSpinNodeIDs advances the process-wide node ID counter to at least base: in the engine by
// setting it, natively by creating and releasing nodes.
func zzSpinNodeIDs(base int) {
	if base == 0 {
		return
	}
	if zz.Symbolic() {
		zz.SetGlobalInt("github.com/jf-tech/omniparser/idr.nodeID", base)
		return
	}
	for {
		n := idr.CreateNode(idr.ElementNode, "spin")
		id := n.ID
		idr.RemoveAndReleaseTree(n)
		if id >= int64(base) {
			return
		}
	}
}

// C14ParTransform: two goroutines transform their own records over one shared validated
// declaration tree, with cold shared caches (xpath expression LRU), for every interleaving of
// the synchronisation operations within the preemption bound: no data race on anything the
// threads share, and each thread's result equals the serial result for its record.
func C14ParTransform() {
	zz.MapOrder(0)
	k := zz.NondetChoice("schema", zzNumSchemas)
	if f := zz.Param("schema", -1); f >= 0 {
		zz.Assume(k == f)
	}
	fo := zzValidate(zzSchema(k))
	recA := zzRecord()
	var recB *idr.Node
	if zz.Param("SYMB", 0) == 1 {
		recB = zzRecord()
	} else {
		recB = zzFixedRecord()
	}
	iters := zz.Stress(30)
	for it := 0; it < iters; it++ {
		var pa, pb interface{}
		var ea, eb error
		zz.Par(func() {
			pa, ea = NewParseCtx(&transformctx.Ctx{}, zzFuncs, nil).ParseNode(recA, fo)
		}, func() {
			pb, eb = NewParseCtx(&transformctx.Ctx{}, zzFuncs, nil).ParseNode(recB, fo)
		})
		zz.Cover("joined")
		sa, sea := NewParseCtx(&transformctx.Ctx{}, zzFuncs, nil).ParseNode(recA, fo)
		sb, seb := NewParseCtx(&transformctx.Ctx{}, zzFuncs, nil).ParseNode(recB, fo)
		zz.Assert((ea == nil) == (sea == nil) && (eb == nil) == (seb == nil), "concurrent run: same success or failure as alone")
		if ea == nil && sea == nil {
			zz.Assert(zzDeepEq(pa, sa), "thread A: result equals the serial result")
		}
		if eb == nil && seb == nil {
			zz.Assert(zzDeepEq(pb, sb), "thread B: result equals the serial result")
		}
	}
}
