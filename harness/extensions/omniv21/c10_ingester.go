package omniv21

import (
	"errors"
	"io"

	"github.com/jf-tech/omniparser/errs"
	"github.com/jf-tech/omniparser/extensions/omniv21/transform"
	"github.com/jf-tech/omniparser/idr"
	"github.com/jf-tech/omniparser/transformctx"
	zz "github.com/jf-tech/omniparser/zzverif"
)

// zzFR: a FormatReader over a list of prepared record nodes hanging under one root.
type zzFR struct {
	root     *idr.Node
	recs     []*idr.Node
	pos      int
	released []int // how often record i was released
	last     int   // index of the record handed out last (-1 none)
	ioErrAt  int   // Read fails with a fatal error when pos == ioErrAt (-1 never)
	lazyAttach bool // records hang under the root only between their Read and their Release
	contAt     int  // once, before record contAt is handed out, Read fails with a continuable error (0 = never; position+1)
	contDone   bool
}

var zzContRead = errors.New("malformed record skipped")

var zzFatal = errors.New("reader failure")

func (r *zzFR) Read() (*idr.Node, error) {
	if r.last >= 0 {
		zz.Assert(r.released[r.last] == 1, "the previous record is released exactly once before the next one is read")
	}
	if r.pos == r.ioErrAt {
		r.last = -1
		return nil, zzFatal
	}
	if r.contAt > 0 && r.pos == r.contAt-1 && !r.contDone {
		// a per-record read problem (e.g. a malformed row the reader skips): no node, continuable
		r.contDone = true
		r.last = -1
		return nil, zzContRead
	}
	if r.pos >= len(r.recs) {
		r.last = -1
		return nil, io.EOF
	}
	r.last = r.pos
	r.pos++
	if r.lazyAttach {
		idr.AddChild(r.root, r.recs[r.last]) // a streaming reader attaches a record when it has read it
	}
	return r.recs[r.last], nil
}

func (r *zzFR) Release(n *idr.Node) {
	for i, rec := range r.recs {
		if rec == n {
			r.released[i]++
			zz.Assert(r.released[i] == 1, "a record is never released twice")
			idr.RemoveAndReleaseTree(n)
			return
		}
	}
	zz.Fail("Release called with a node the reader never handed out")
}

func (r *zzFR) IsContinuableError(err error) bool                  { return err == zzContRead }
func (r *zzFR) FmtErr(format string, args ...interface{}) error { return errors.New(format) }

func zzS(s string) *string { return &s }

func zzCount(n *idr.Node) int {
	k := 1
	for c := n.FirstChild; c != nil; c = c.NextSibling {
		k += zzCount(c)
	}
	return k
}

func zzMkRec(root *idr.Node, tag string, floats bool) (*idr.Node, string) {
	var b []byte
	if floats {
		// concrete texts for the float-cast variant (float parsing of symbolic text is outside)
		b = []byte([]string{"1.5", "NaN", "x", "-Inf"}[zz.NondetChoice(tag+".f", 4)])
	} else {
		b = zz.NondetBytes(tag, 1)
		for _, c := range b {
			zz.Assume(zz.ByteIn(c, "1a "))
		}
	}
	t := idr.CreateNode(idr.ElementNode, "T")
	if root != nil {
		idr.AddChild(root, t)
	}
	v := idr.CreateNode(idr.ElementNode, "v")
	idr.AddChild(t, v)
	idr.AddChild(v, idr.CreateNode(idr.TextNode, string(b)))
	// a second, uncast field so that good records differ in their output
	wb := zz.NondetBytesN(tag+".w", 1)
	zz.Assume(zz.ByteIn(wb[0], "pq"))
	w := idr.CreateNode(idr.ElementNode, "w")
	idr.AddChild(t, w)
	idr.AddChild(w, idr.CreateNode(idr.TextNode, string(wb)))
	zzLastW = string(wb)
	return t, string(b)
}

var zzLastW string

// C10IngesterStep: the ingester over K symbolic records: every result depends on its own
// record only (equal to an independent evaluation of a copy of that record), a failing
// record yields exactly one continuable ErrTransformFailed and nothing else changes, each
// record node is released exactly once and before the next read, the raw record is the node
// just read, and what stays attached under the reader's root does not grow.
func C10IngesterStep() {
	zz.MapOrder(0)
	K := zz.Param("K", 3)
	floats := zz.NondetBool("floatVariant")
	cast := "int"
	if floats {
		cast = "float" // non-finite floats parse fine but cannot be marshalled
	}
	decl := transform.ZZValidate(map[string]*transform.Decl{"FINAL_OUTPUT": {Object: map[string]*transform.Decl{
		"n": {XPath: zzS("v"), ResultType: transform.ZZRT(cast)},
		"s": {XPath: zzS("v"), KeepEmptyOrNull: true},
		"w": {XPath: zzS("w")},
		// a declaration anchored on an ancestor of the record: the ancestor keeps its identity from
		// record to record while what hangs under it changes
		"up": {XPath: zzS(".."), Object: map[string]*transform.Decl{"cur": {XPath: zzS("T/v"), KeepEmptyOrNull: true}}},
	}}})
	root := idr.CreateNode(idr.DocumentNode, "")
	fr := &zzFR{root: root, last: -1, ioErrAt: -1, lazyAttach: true}
	var texts, wtexts []string
	for i := 0; i < K; i++ {
		n, s := zzMkRec(nil, "rec", floats)
		fr.recs = append(fr.recs, n)
		texts = append(texts, s)
		wtexts = append(wtexts, zzLastW)
	}
	fr.released = make([]int, K)
	if zz.NondetBool("readerFails") {
		fr.ioErrAt = zz.NondetChoice("failAt", K+1)
	} else if zz.NondetBool("readerSkips") {
		fr.contAt = 1 + zz.NondetChoice("skipAt", K+1)
	}
	g := &ingester{finalOutputDecl: decl, customFuncs: transform.ZZFuncs, ctx: &transformctx.Ctx{}, reader: fr}
	base := -1
	var prevOut []byte // the previous good result, kept by the caller across Reads
	prevText := ""
	i := 0
	for step := 0; step < K+3; step++ {
		raw, out, err := g.Read()
		if prevOut != nil {
			zz.Assert(string(prevOut) == prevText, "bytes handed out for an earlier record are not changed by later Reads")
		}
		if err == zzContRead {
			zz.Cover("reader-skip")
			zz.Assert(raw == nil && out == nil && g.IsContinuableError(err), "a continuable reader error passes through and stays continuable")
			continue
		}
		if err == io.EOF {
			zz.Cover("eof")
			zz.Assert(fr.ioErrAt < 0 && i == K, "EOF exactly after the last record")
			zz.Assert(raw == nil && out == nil, "EOF comes with nil results")
			return
		}
		if err == zzFatal {
			zz.Cover("fatal")
			zz.Assert(i == fr.ioErrAt && raw == nil && out == nil, "a reader failure passes through unchanged")
			zz.Assert(!g.IsContinuableError(err), "and is not continuable")
			return
		}
		zz.Assert(i < K, "one result per record")
		// independent evaluation of a copy of record i
		copyRoot := idr.CreateNode(idr.DocumentNode, "")
		c := idr.CreateNode(idr.ElementNode, "T")
		idr.AddChild(copyRoot, c)
		cv := idr.CreateNode(idr.ElementNode, "v")
		idr.AddChild(c, cv)
		idr.AddChild(cv, idr.CreateNode(idr.TextNode, texts[i]))
		cw := idr.CreateNode(idr.ElementNode, "w")
		idr.AddChild(c, cw)
		idr.AddChild(cw, idr.CreateNode(idr.TextNode, wtexts[i]))
		want, werr := transform.NewParseCtx(&transformctx.Ctx{}, transform.ZZFuncs, nil).ParseNode(c, decl)
		var wantBytes []byte
		if werr == nil {
			wantBytes, werr = jsonMarshalForHarness(want)
		}
		if werr != nil && err != nil && !errs.IsErrTransformFailed(err) {
			// a result that cannot be rendered as JSON: an error (its class is the reader's call),
			// never a success
			zz.Cover("marshal-failed")
			zz.Assert(raw != nil || out == nil, "marshal failure carries no bytes")
			i++
			continue
		}
		if werr != nil {
			zz.Cover("record-failed")
			zz.Assert(err != nil && errs.IsErrTransformFailed(err) && g.IsContinuableError(err), "a failing record is a continuable ErrTransformFailed")
			zz.Assert(raw == nil && out == nil, "a failure comes with nil results")
		} else {
			zz.Cover("record-ok")
			zz.Assert(err == nil && out != nil && raw != nil, "a good record is delivered")
			if err == nil {
				zz.Assert(string(out) == string(wantBytes), "the output depends on this record only")
				zz.Assert(raw.Raw() == interface{}(fr.recs[i]), "the raw record is the node just read")
			}
		}
		if err == nil && out != nil {
			prevOut, prevText = out, string(out)
		}
		size := zzCount(root)
		if base < 0 {
			base = size
		}
		zz.Assert(size <= base, "what stays attached under the reader's root does not grow with records")
		i++
	}
	zz.Fail("no terminal result")
}

// zzUUIDv3 replaces customfuncs.UUIDv3 (MD5-based UUID) in the engine: the checksum is the
// canonical JSON text itself, i.e. MD5/UUID collision-freedom is trusted.
func zzUUIDv3(_ *transformctx.Ctx, s string) (string, error) { return "uuid(" + s + ")", nil }

// zzRunOnce: one transform over K records with the given texts; returns the outputs and
// raw-record checksums.
func zzRunOnce(texts []string, decl *transform.Decl) (outs []string, sums []string) {
	root := idr.CreateNode(idr.DocumentNode, "")
	fr := &zzFR{root: root, last: -1, ioErrAt: -1}
	for _, t := range texts {
		n := idr.CreateNode(idr.ElementNode, "T")
		idr.AddChild(root, n)
		v := idr.CreateNode(idr.ElementNode, "v")
		idr.AddChild(n, v)
		idr.AddChild(v, idr.CreateNode(idr.TextNode, t))
		w := idr.CreateNode(idr.ElementNode, "w")
		idr.AddChild(n, w)
		idr.AddChild(w, idr.CreateNode(idr.TextNode, "k"))
		fr.recs = append(fr.recs, n)
	}
	fr.released = make([]int, len(texts))
	g := &ingester{finalOutputDecl: decl, customFuncs: transform.ZZFuncs, ctx: &transformctx.Ctx{}, reader: fr}
	for i := 0; i < len(texts)+1; i++ {
		raw, out, err := g.Read()
		if err == io.EOF {
			break
		}
		if err != nil {
			outs = append(outs, "ERR")
			sums = append(sums, "")
			continue
		}
		outs = append(outs, string(out))
		sums = append(sums, raw.Checksum())
	}
	return outs, sums
}

// C15Hidden2Run: the same transform run twice in one process gives byte-identical outputs
// and checksums although everything hidden differs in between: the node-ID counter is
// advanced by an arbitrary amount, the node pool holds nodes recycled from an unrelated
// transform, map iteration order is arbitrary in every range.
func C15Hidden2Run() {
	zz.MapOrder(2)
	K := zz.Param("K", 2)
	decl := transform.ZZValidate(map[string]*transform.Decl{"FINAL_OUTPUT": {Object: map[string]*transform.Decl{
		"a": {XPath: zzS("v")},
		"b": {XPath: zzS("w")},
		"c": {Object: map[string]*transform.Decl{"v": {XPath: zzS("v")}, "k": {Const: zzS("k")}}},
	}}})
	var texts []string
	for i := 0; i < K; i++ {
		b := zz.NondetBytes("rec", 1)
		for _, c := range b {
			zz.Assume(zz.ByteIn(c, "1a"))
		}
		texts = append(texts, string(b))
	}
	o1, s1 := zzRunOnce(texts, decl)
	// an unrelated transform in between: populates the pool, advances the ID counter
	zzRunOnce([]string{"zzz", "yy"}, decl)
	for i, n := 0, zz.NondetInt("idBump", 0, 3); i < n; i++ {
		idr.RemoveAndReleaseTree(idr.CreateNode(idr.ElementNode, "junk"))
	}
	o2, s2 := zzRunOnce(texts, decl)
	zz.Assert(len(o1) == len(o2), "same number of results")
	for i := range o1 {
		if i < len(o2) {
			zz.Assert(o1[i] == o2[i], "byte-identical output when repeated after other transforms")
			zz.Assert(s1[i] == s2[i], "equal checksum for equal raw records")
		}
	}
	// checksums differ when an ingested value differs
	if K >= 2 {
		zz.Assert((s1[0] == s1[1]) == (texts[0] == texts[1]), "checksums are equal exactly when the raw records are")
	}
	zz.Cover("repeated")
}

// C15ChecksumXML: XML record shapes: two records that differ in an attribute value or in
// mixed-content text must have different checksums.
func C15ChecksumXML() {
	mk := func(tag string) (*idr.Node, string, string) {
		av := zz.NondetBytesN(tag+".attr", 1)
		tv := zz.NondetBytesN(tag+".text", 1)
		zz.Assume(zz.ByteIn(av[0], "12"))
		zz.Assume(zz.ByteIn(tv[0], "xy"))
		t := idr.CreateXMLNode(idr.ElementNode, "T", idr.XMLSpecific{})
		a := idr.CreateXMLNode(idr.AttributeNode, "k", idr.XMLSpecific{})
		idr.AddChild(t, a)
		idr.AddChild(a, idr.CreateXMLNode(idr.TextNode, string(av), idr.XMLSpecific{}))
		if zz.Param("mixed", 0) == 1 {
			idr.AddChild(t, idr.CreateXMLNode(idr.TextNode, string(tv), idr.XMLSpecific{}))
		}
		for _, s := range []string{"one", "two"} {
			e := idr.CreateXMLNode(idr.ElementNode, "e", idr.XMLSpecific{})
			idr.AddChild(t, e)
			idr.AddChild(e, idr.CreateXMLNode(idr.TextNode, s, idr.XMLSpecific{}))
		}
		return t, string(av), string(tv)
	}
	n1, a1, t1 := mk("r1")
	n2, a2, t2 := mk("r2")
	c1 := (&rawRecord{node: n1}).Checksum()
	c2 := (&rawRecord{node: n2}).Checksum()
	same := a1 == a2 && (zz.Param("mixed", 0) == 0 || t1 == t2)
	// F13: JSONify2 drops attributes of array-like parents and text of mixed content
	zz.KnownRegion("F13", !same)
	zz.Assert((c1 == c2) == same, "checksums differ when any ingested value differs")
	zz.Cover("compared")
}

// C14ParIngest: two goroutines each run a whole transform (build records from pooled nodes,
// ingester Read = transform + marshal + checksum, Release back to the pool) over one shared
// validated schema. For every interleaving of the synchronisation operations within the
// preemption bound: no data race on schema declarations, node pool, ID counter or expression
// cache; no node used after its release or owned twice across threads; and each thread's
// outputs and checksums are byte-identical to its serial run.
func C14ParIngest() {
	zz.MapOrder(0)
	K := zz.Param("K", 1)
	decl := transform.ZZValidate(map[string]*transform.Decl{"FINAL_OUTPUT": {Object: map[string]*transform.Decl{
		"a": {XPath: zzS("v")},
		"c": {Object: map[string]*transform.Decl{"v": {XPath: zzS("v")}, "k": {Const: zzS("k")}}},
	}}})
	var ta, tb []string
	for i := 0; i < K; i++ {
		b := zz.NondetBytes("recA", 1)
		for _, c := range b {
			zz.Assume(zz.ByteIn(c, "1a "))
		}
		ta = append(ta, string(b))
		tb = append(tb, []string{"x", " y"}[i%2])
	}
	iters := zz.Stress(100)
	for it := 0; it < iters; it++ {
		var oa, sa, ob, sb []string
		zz.Par(func() { oa, sa = zzRunOnce(ta, decl) }, func() { ob, sb = zzRunOnce(tb, decl) })
		zz.Cover("joined")
		ra, rsa := zzRunOnce(ta, decl)
		rb, rsb := zzRunOnce(tb, decl)
		zz.Assert(len(oa) == len(ra) && len(ob) == len(rb), "same number of results as alone")
		for i := range ra {
			if i < len(oa) {
				zz.Assert(oa[i] == ra[i] && sa[i] == rsa[i], "thread A: output and checksum as in its serial run")
			}
		}
		for i := range rb {
			if i < len(ob) {
				zz.Assert(ob[i] == rb[i] && sb[i] == rsb[i], "thread B: output and checksum as in its serial run")
			}
		}
	}
}

// C15ErrText: the text of a record's failure is as reproducible as its output: with two
// sibling fields that both fail (names containing dots and sharing their last part, the case
// where the fqdn is escaped), two independent loads of the same schema — each under every
// map-iteration order — report the same failure for the same record.
func C15ErrText() {
	zz.MapOrder(2)
	mk := func() *transform.Decl {
		return transform.ZZValidate(map[string]*transform.Decl{"FINAL_OUTPUT": {Object: map[string]*transform.Decl{
			"billing.zip":  {XPath: zzS("v"), ResultType: transform.ZZRT("int")},
			"shipping.zip": {XPath: zzS("w"), ResultType: transform.ZZRT("int")},
			"zip":          {XPath: zzS("w")},
		}}})
	}
	run := func(decl *transform.Decl) string {
		n := idr.CreateNode(idr.ElementNode, "T")
		for _, kv := range [][2]string{{"v", "SW1A"}, {"w", "EC1A"}} {
			c := idr.CreateNode(idr.ElementNode, kv[0])
			idr.AddChild(n, c)
			idr.AddChild(c, idr.CreateNode(idr.TextNode, kv[1]))
		}
		_, err := transform.NewParseCtx(&transformctx.Ctx{}, transform.ZZFuncs, nil).ParseNode(n, decl)
		if err == nil {
			return "ok"
		}
		return err.Error()
	}
	// natively Go's map order is not under control: repeat, so that differing orders occur
	for it, n := 0, zz.Stress(200); it < n; it++ {
		e1 := run(mk())
		e2 := run(mk())
		if it == 0 {
			zz.Observe("err", e1)
		}
		zz.Assert(e1 != "ok" && e2 != "ok", "the record fails (both casts fail)")
		zz.Assert(e1 == e2, "the same record fails with the same text on every load of the schema")
	}
	zz.Cover("compared")
}

// C15ChecksumShapes: records of different shape never share a checksum: repeated element names
// whose occurrences are themselves lists (<item><v/><v/></item><item>x</item>) against the
// flattened shapes that would collide if nesting were lost.
func C15ChecksumShapes() {
	leaf := func(parent *idr.Node, name string, tag string) string {
		v := zz.NondetBytesN(tag, 1)
		zz.Assume(zz.ByteIn(v[0], "12"))
		e := idr.CreateXMLNode(idr.ElementNode, name, idr.XMLSpecific{})
		idr.AddChild(parent, e)
		idr.AddChild(e, idr.CreateXMLNode(idr.TextNode, string(v), idr.XMLSpecific{}))
		return string(v)
	}
	mk := func(tag string) (*idr.Node, int, string) {
		t := idr.CreateXMLNode(idr.ElementNode, "T", idr.XMLSpecific{})
		shape := zz.NondetChoice(tag+".shape", 4)
		vals := ""
		item := func() *idr.Node {
			e := idr.CreateXMLNode(idr.ElementNode, "item", idr.XMLSpecific{})
			idr.AddChild(t, e)
			return e
		}
		switch shape {
		case 0: // item = [v v], item = text
			i1 := item()
			vals += leaf(i1, "v", tag+".a") + leaf(i1, "v", tag+".b")
			vals += leaf(t, "item", tag+".c")
		case 1: // item = [v v v]
			i1 := item()
			vals += leaf(i1, "v", tag+".a") + leaf(i1, "v", tag+".b") + leaf(i1, "v", tag+".c")
		case 2: // item = text ×3
			vals += leaf(t, "item", tag+".a") + leaf(t, "item", tag+".b") + leaf(t, "item", tag+".c")
		default: // item = [v], item = [v v]
			i1 := item()
			vals += leaf(i1, "v", tag+".a")
			i2 := item()
			vals += leaf(i2, "v", tag+".b") + leaf(i2, "v", tag+".c")
		}
		idr.AddChild(t, idr.CreateXMLNode(idr.ElementNode, "note", idr.XMLSpecific{}))
		return t, shape, vals
	}
	n1, s1, v1 := mk("r1")
	n2, s2, v2 := mk("r2")
	c1 := (&rawRecord{node: n1}).Checksum()
	c2 := (&rawRecord{node: n2}).Checksum()
	same := s1 == s2 && v1 == v2
	// F24: a list of same-named children renders without the children's name, so
	// <item>a</item><item>b</item><item>c</item> and <item><v>a</v><v>b</v><v>c</v></item>
	// share a checksum (same lossy JSONify2 rendering as F13)
	zz.KnownRegion("F24", v1 == v2 && ((s1 == 1 && s2 == 2) || (s1 == 2 && s2 == 1)))
	zz.Assert((c1 == c2) == same, "checksums are equal exactly when shape and values are")
	zz.Cover("compared")
}
