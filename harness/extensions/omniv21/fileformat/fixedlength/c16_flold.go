package fixedlength

import (
	"bufio"
	"io"

	"github.com/jf-tech/omniparser/idr"
	zz "github.com/jf-tech/omniparser/zzverif"
)

type zzFlLines struct {
	input []byte
	lines [][]byte
}

// zzMakeLines: 1..NL lines, each 1 or LL symbolic printable-ASCII bytes, EOL LF / CRLF /
// LF+blank line (none at the very end).
func zzMakeLines(NL, LL int) *zzFlLines {
	f := &zzFlLines{}
	n := 1 + zz.NondetChoice("nlines", NL)
	for i := 0; i < n; i++ {
		ln := 1
		if zz.NondetBool("longline") {
			ln = LL
		}
		b := zz.NondetBytesN("line", ln)
		for _, x := range b {
			zz.Assume(zz.ByteRange(x, 0x20, 0x7E))
		}
		f.lines = append(f.lines, b)
		f.input = append(f.input, b...)
		switch zz.NondetChoice("eol", 3) {
		case 0:
			f.input = append(f.input, '\n')
		case 1:
			f.input = append(f.input, '\r', '\n')
		default:
			if i < n-1 {
				f.input = append(f.input, '\n', '\n')
			}
		}
	}
	return f
}

func zzColText(n *idr.Node, k int) (string, bool) {
	c := n.FirstChild
	for i := 0; i < k && c != nil; i++ {
		c = c.NextSibling
	}
	if c == nil || c.FirstChild == nil {
		return "", false
	}
	return c.FirstChild.Data, true
}

func zzNewReader(src io.Reader, decl *FileDecl, bufsize int) *reader {
	return &reader{inputName: "t", r: bufio.NewReaderSize(src, bufsize), decl: decl,
		root: idr.CreateNode(idr.DocumentNode, "#root"), line: 1}
}

func zzRowsDecl(rows, LL int) *FileDecl {
	name := "e"
	any := "."
	// c2 is picked by a line_pattern (compiled through the shared regexp cache on every match)
	return &FileDecl{Envelopes: []*EnvelopeDecl{{Name: &name, ByRows: zzIntPtr(rows),
		Columns: []*ColumnDecl{{Name: "c1", StartPos: 1, Length: LL}, {Name: "c2", StartPos: 1, Length: 1, LinePattern: &any}}}}}
}

// C06FlOldRows: old fixed-length reader, by_rows envelopes over a 16-byte bufio buffer and a
// cut source: records in input order, first column = first line of the envelope; an
// incomplete last envelope is a fatal error; reading on after the terminal result (without
// ever calling Release) never releases a node twice.
func C06FlOldRows() {
	NL := zz.Param("NL", 3)
	LL := zz.Param("LL", 7)
	f := zzMakeLines(NL, LL)
	rows := 1 + zz.NondetChoice("rows", 2)
	src := &zzChunkReader{data: f.input, failAt: -1, cuts: zzCuts(zz.Param("CUTS", 1), len(f.input))}
	decl := zzRowsDecl(rows, LL)
	if zz.Param("FREEZE", 0) == 1 {
		zz.Freeze(decl) // the validated declaration is shared by every Transform of the Schema
	}
	r := zzNewReader(src, decl, 16)
	callRelease := zz.NondetBool("callRelease")
	rec := 0
	for i := 0; i < NL+2; i++ {
		n, err := r.Read()
		if err != nil {
			if err == io.EOF {
				zz.Cover("eof")
				zz.Assert(rec*rows == len(f.lines), "EOF only when every line went into an envelope")
			} else {
				zz.Cover("incomplete")
				zz.Assert(IsErrInvalidEnvelope(err) && !r.IsContinuableError(err), "incomplete envelope is a fatal error")
				zz.Assert(len(f.lines)-rec*rows > 0 && len(f.lines)-rec*rows < rows, "error only when fewer than by_rows lines remain")
			}
			// callers may keep calling Read after the terminal result
			_, err2 := r.Read()
			zz.Assert(err2 != nil, "after the terminal result Read keeps failing")
			_, err3 := r.Read()
			zz.Assert(err3 != nil, "after the terminal result Read keeps failing (2)")
			return
		}
		zz.Cover("record")
		zz.Assert((rec+1)*rows <= len(f.lines), "an envelope needs by_rows lines")
		if (rec+1)*rows <= len(f.lines) {
			got, ok := zzColText(n, 0)
			zz.Assert(ok && got == string(f.lines[rec*rows]), "first column holds the envelope's first line")
		}
		rec++
		if callRelease {
			r.Release(n)
		}
	}
	zz.Fail("no terminal result within the read bound")
}

// C16FlOld: a failing source ends the old fixed-length reader with a fatal non-EOF error
// (by_rows and by_header_footer envelopes).
func C16FlOld() {
	NL := zz.Param("NL", 3)
	LL := zz.Param("LL", 3)
	f := zzMakeLines(NL, LL)
	var decl *FileDecl
	hf := zz.NondetBool("headerFooter")
	if hf {
		name := "e"
		// every line of at least three characters is an envelope of its own unless it
		// starts with 'H', which opens an envelope that runs to the next line starting with 'F'
		decl = &FileDecl{Envelopes: []*EnvelopeDecl{
			{Name: &name, ByHeaderFooter: &ByHeaderFooterDecl{Header: "^H", Footer: "^F"},
				Columns: []*ColumnDecl{{Name: "c1", StartPos: 1, Length: LL}}},
			{Name: &name, ByHeaderFooter: &ByHeaderFooterDecl{Header: "^[^H]..", Footer: "."},
				Columns: []*ColumnDecl{{Name: "c1", StartPos: 1, Length: LL}}},
		}}
	} else {
		decl = zzRowsDecl(1+zz.NondetChoice("rows", 2), LL)
	}
	ra := zzNewReader(&zzChunkReader{data: f.input, failAt: -1}, decl, 4096)
	var want []string
	twinEOF := false
	for i := 0; i < NL+2; i++ {
		n, err := ra.Read()
		if err != nil {
			twinEOF = err == io.EOF
			break
		}
		t, _ := zzColText(n, 0)
		want = append(want, t)
		ra.Release(n)
	}
	failAt := zz.NondetChoice("failAt", len(f.input)+1)
	rb := zzNewReader(&zzChunkReader{data: f.input, failAt: failAt, ioErr: zzPickIOErr()}, decl, 4096)
	got := 0
	pending := ""
	havePending := false
	for i := 0; i < NL+3; i++ {
		n, err := rb.Read()
		if err == nil {
			if havePending {
				zz.Assert(got-1 < len(want) && pending == want[got-1], "results before the fault (except possibly the last) equal the fault-free run")
			}
			pending, _ = zzColText(n, 0)
			havePending = true
			got++
			rb.Release(n)
			continue
		}
		if err == io.EOF {
			// A clean EOF is only acceptable when the reader legitimately stopped before the
			// fault mattered, i.e. the whole transcript equals the fault-free one (the old
			// header/footer reader ends the stream at the first line no envelope matches).
			same := twinEOF && got == len(want) && (!havePending || pending == want[got-1])
			// F19: fault inside a line: bufio hands out the partial line, it matches no
			// header, and the reader answers io.EOF although the fault-free run goes on
			zz.KnownRegion("F19", hf && !same)
			zz.Assert(same, "a failing source ends in a clean EOF although the fault-free run delivers more")
			zz.Cover("early-eof")
			return
		}
		zz.Assert(!rb.IsContinuableError(err), "a source failure is fatal, not a per-record failure")
		zz.Cover("fatal")
		return
	}
	zz.Fail("no fatal error within the read bound")
}

// C12FlOldNoRelease: callers that rely on the documented auto-release (never calling
// Release) and keep calling Read after the terminal result: no node is ever released twice
// (pool model reports a double Put), delivered trees stay sound.
func C12FlOldNoRelease() {
	NL := zz.Param("NL", 3)
	f := zzMakeLines(NL, 3)
	name := "e"
	var decl *FileDecl
	if zz.NondetBool("headerFooter") {
		decl = &FileDecl{Envelopes: []*EnvelopeDecl{
			{Name: &name, ByHeaderFooter: &ByHeaderFooterDecl{Header: "^[^X]", Footer: "."},
				Columns: []*ColumnDecl{{Name: "c1", StartPos: 1, Length: 3}}}}}
	} else {
		decl = zzRowsDecl(1+zz.NondetChoice("rows", 2), 3)
	}
	r := zzNewReader(&zzChunkReader{data: f.input, failAt: -1}, decl, 4096)
	for i := 0; i < NL+4; i++ {
		n, err := r.Read()
		if err == nil {
			zz.Cover("record")
			zz.Assert(n.Parent == r.root && n.FirstChild != nil && n.FirstChild.Parent == n, "delivered envelope is attached and sound")
			continue
		}
		zz.Cover("terminal")
	}
	// nodes obtained afterwards are pairwise distinct objects (a node released twice sits in
	// the pool twice and is handed out to two owners)
	var fresh []*idr.Node
	for i := 0; i < 8; i++ {
		fresh = append(fresh, idr.CreateNode(idr.ElementNode, "n"))
	}
	for i := range fresh {
		for j := i + 1; j < len(fresh); j++ {
			zz.Assert(fresh[i] != fresh[j], "two acquisitions never return the same node")
		}
	}
}

// C09FlOldCuts: the old fixed-length reader (by_rows and by_header_footer envelopes) gives the
// same transcript — records with their first column, the terminal error or EOF — whether the
// source delivers everything in one Read or cuts it at arbitrary positions (also right after a
// line break, where bufio has nothing buffered behind the line it just returned).
func C09FlOldCuts() {
	NL := zz.Param("NL", 3)
	LL := zz.Param("LL", 3)
	f := zzMakeLines(NL, LL)
	var decl *FileDecl
	if zz.NondetBool("headerFooter") {
		name := "e"
		decl = &FileDecl{Envelopes: []*EnvelopeDecl{
			{Name: &name, ByHeaderFooter: &ByHeaderFooterDecl{Header: "^H", Footer: "^F"},
				Columns: []*ColumnDecl{{Name: "c1", StartPos: 1, Length: LL}}},
			{Name: &name, ByHeaderFooter: &ByHeaderFooterDecl{Header: "^[^H]", Footer: "."},
				Columns: []*ColumnDecl{{Name: "c1", StartPos: 1, Length: LL}}},
		}}
	} else {
		decl = zzRowsDecl(1+zz.NondetChoice("rows", 2), LL)
	}
	if zz.Param("FREEZE", 0) == 1 {
		zz.Freeze(decl) // the two readers share the declaration like two Transforms of one Schema
	}
	one := zzNewReader(&zzChunkReader{data: f.input, failAt: -1}, decl, 4096)
	cut := zzNewReader(&zzChunkReader{data: append([]byte{}, f.input...), failAt: -1,
		cuts: zzCuts(zz.Param("CUTS", 2), len(f.input))}, decl, zz.Param("BUF", 16))
	for i := 0; i < NL+2; i++ {
		n1, e1 := one.Read()
		n2, e2 := cut.Read()
		zz.Assert((e1 == nil) == (e2 == nil), "same kind of result whatever the chunking")
		if e1 != nil || e2 != nil {
			zz.Cover("terminal")
			zz.Assert((e1 == io.EOF) == (e2 == io.EOF), "EOF under one chunking is EOF under every chunking")
			return
		}
		zz.Cover("record")
		t1, ok1 := zzColText(n1, 0)
		t2, ok2 := zzColText(n2, 0)
		zz.Assert(ok1 == ok2 && t1 == t2, "same record whatever the chunking")
		one.Release(n1)
		cut.Release(n2)
	}
	zz.Fail("no terminal result within the read bound")
}
