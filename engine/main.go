package main

import (
	"encoding/json"
	"flag"
	"fmt"
	"os"
	"path/filepath"
	"runtime/pprof"
	"strconv"
	"strings"

	"golang.org/x/tools/go/packages"
	"golang.org/x/tools/go/ssa"
	"golang.org/x/tools/go/ssa/ssautil"
)

// repoDir is /repo for every registered check. GOSMT_REPO_DIR is used only by seeded/ptry.sh, which runs a
// check against a scratch worktree carrying a seeded change so that several trials can run side by side.
var repoDir = func() string {
	if d := os.Getenv("GOSMT_REPO_DIR"); d != "" {
		return d
	}
	return "/repo"
}()
const modPath = "github.com/jf-tech/omniparser"

// buildOverlay maps /verif/harness/<rel>/<file>.go to /repo/<rel>/zz_verif_<file>.go
// (the zzverif directory is overlaid verbatim as a new package).
func buildOverlay(harnessRoot string) (map[string][]byte, error) {
	ov := map[string][]byte{}
	err := filepath.Walk(harnessRoot, func(p string, info os.FileInfo, err error) error {
		if err != nil {
			return err
		}
		if info.IsDir() {
			if strings.HasPrefix(info.Name(), "_") {
				return filepath.SkipDir
			}
			return nil
		}
		if !strings.HasSuffix(p, ".go") {
			return nil
		}
		rel, _ := filepath.Rel(harnessRoot, p)
		dir, file := filepath.Split(rel)
		if strings.HasSuffix(file, "_native.go") {
			return nil // native-only implementation files are not analysed
		}
		data, err := os.ReadFile(p)
		if err != nil {
			return err
		}
		if !strings.HasPrefix(dir, "zzverif") {
			file = "zz_verif_" + file
		}
		ov[filepath.Join(repoDir, dir, file)] = data
		return nil
	})
	return ov, err
}

func loadProgram(harnessRoot string, pkgs []string) (*ssa.Program, []*ssa.Package, error) {
	ov, err := buildOverlay(harnessRoot)
	if err != nil {
		return nil, nil, err
	}
	cfg := &packages.Config{
		Mode:    packages.LoadAllSyntax,
		Dir:     repoDir,
		Overlay: ov,
		Env:     append(os.Environ(), "GOFLAGS=-mod=mod", "GOPROXY=off", "GOSUMDB=off", "GOTOOLCHAIN=local", "CGO_ENABLED=0"),
	}
	initial, err := packages.Load(cfg, pkgs...)
	if err != nil {
		return nil, nil, err
	}
	var errs []string
	packages.Visit(initial, nil, func(p *packages.Package) {
		for _, e := range p.Errors {
			errs = append(errs, e.Error())
		}
	})
	if len(errs) > 0 {
		return nil, nil, fmt.Errorf("package load errors:\n%s", strings.Join(errs, "\n"))
	}
	prog, spkgs := ssautil.AllPackages(initial, ssa.InstantiateGenerics)
	prog.Build()
	return prog, spkgs, nil
}

func findHarness(spkgs []*ssa.Package, name string) *ssa.Function {
	for _, p := range spkgs {
		if p == nil {
			continue
		}
		if f := p.Func(name); f != nil {
			return f
		}
	}
	return nil
}

type paramList map[string]int64

func (p paramList) String() string { return fmt.Sprint(map[string]int64(p)) }
func (p paramList) Set(s string) error {
	kv := strings.SplitN(s, "=", 2)
	if len(kv) != 2 {
		return fmt.Errorf("want k=v")
	}
	v, err := strconv.ParseInt(kv[1], 10, 64)
	if err != nil {
		return err
	}
	p[kv[0]] = v
	return nil
}

type redirList map[string]string

func (p redirList) String() string { return fmt.Sprint(map[string]string(p)) }
func (p redirList) Set(s string) error {
	kv := strings.SplitN(s, "=", 2)
	if len(kv) != 2 {
		return fmt.Errorf("want from=to")
	}
	p[kv[0]] = kv[1]
	return nil
}

func cmdRun(args []string) int {
	fs := flag.NewFlagSet("run", flag.ExitOnError)
	pkg := fs.String("pkg", "", "package pattern relative to /repo, e.g. ./idr")
	harness := fs.String("harness", "", "harness function name(s), comma separated")
	hroot := fs.String("harness-root", "/verif/harness", "harness source root")
	out := fs.String("out", "", "write JSON result here")
	unwind := fs.Int("unwind", 40, "loop unwind limit per frame")
	depth := fs.Int("depth", 200, "call depth limit")
	solver := fs.String("solver", "z3-new", "z3 | z3-new | cvc5")
	timeout := fs.Int("timeout-ms", 20000, "per-query timeout")
	workers := fs.Int("workers", 8, "parallel workers")
	maxPaths := fs.Int("max-paths", 200000, "path limit")
	mapOrder := fs.Int("map-order", 1, "0 insertion, 1 fwd+rev, 2 perms<=3")
	deadline := fs.Int("deadline", 0, "seconds")
	validate := fs.Int("validate", 8, "witness vectors to produce")
	known := fs.String("known", "", "comma separated known finding ids with active carve-outs")
	verbose := fs.Bool("v", false, "verbose")
	cpuprof := fs.String("cpuprofile", "", "write CPU profile")
	params := paramList{}
	fs.Var(params, "param", "k=v (repeatable)")
	pureFns := fs.String("pure", "", "comma separated real functions to evaluate merged")
	redir := redirList{}
	fs.Var(redir, "redirect", "realFn=harnessFn (repeatable)")
	fs.Parse(args)

	prog, spkgs, err := loadProgram(*hroot, []string{*pkg})
	if err != nil {
		fmt.Fprintln(os.Stderr, "INCONCLUSIVE: load:", err)
		return 2
	}
	if *cpuprof != "" {
		f, _ := os.Create(*cpuprof)
		pprof.StartCPUProfile(f)
		defer pprof.StopCPUProfile()
	}
	rc := 0
	var results []*RunResult
	for _, h := range strings.Split(*harness, ",") {
		fn := findHarness(spkgs, h)
		if fn == nil {
			fmt.Fprintln(os.Stderr, "INCONCLUSIVE: harness not found:", h)
			return 2
		}
		cfg := &Config{Unwind: *unwind, MaxDepth: *depth, Solver: *solver, TimeoutMs: *timeout, Workers: *workers,
			MaxPaths: *maxPaths, MapOrder: *mapOrder, Params: params, Known: map[string]bool{}, DeadlineSec: *deadline,
			Validate: *validate, Verbose: *verbose, Redirect: redir, PureFns: map[string]bool{}}
		for _, p := range strings.Split(*pureFns, ",") {
			if p != "" {
				cfg.PureFns[p] = true
			}
		}
		for _, k := range strings.Split(*known, ",") {
			if k != "" {
				cfg.Known[k] = true
			}
		}
		res := Explore(prog, fn, cfg)
		results = append(results, res)
		fmt.Fprintf(os.Stderr, "%s: paths=%d completed=%d pruned=%d panics=%d unwinds=%d violations=%d inconclusive=%d queries=%d solver=%.1fs wall=%.1fs\n",
			h, res.Paths, res.Completed, res.Pruned, res.Panics, res.Unwinds, len(res.Violations), len(res.Inconclusive), res.Queries, res.SolverTimeS, res.WallS)
		for _, s := range res.Inconclusive {
			fmt.Fprintln(os.Stderr, "  inconclusive:", s)
		}
		for _, s := range res.Notes {
			fmt.Fprintln(os.Stderr, "  note:", s)
		}
		for l, a := range res.Asserts {
			fmt.Fprintf(os.Stderr, "  assert %-40s trivial=%d checked=%d held=%d violated=%d\n", l, a.Trivial, a.Checked, a.Held, a.Violated)
		}
		for l, n := range res.Covers {
			fmt.Fprintf(os.Stderr, "  cover  %-40s %d\n", l, n)
		}
		for w, n := range res.UnwindWhere {
			fmt.Fprintf(os.Stderr, "  unwind %s ×%d\n", w, n)
		}
		for w, n := range res.PanicWhere {
			fmt.Fprintf(os.Stderr, "  panic  %s ×%d\n", w, n)
		}
		for i, v := range res.Violations {
			if i < 5 {
				fmt.Fprintf(os.Stderr, "  VIOLATION %s [%s] at %s vector=%v\n", v.Label, v.Kind, v.Pos, v.Vector)
			}
		}
		if len(res.Violations) > 0 {
			rc = 1
		} else if len(res.Inconclusive) > 0 && rc == 0 {
			rc = 2
		}
	}
	if *out != "" {
		data, _ := json.MarshalIndent(results, "", " ")
		os.WriteFile(*out, data, 0o644)
	}
	return rc
}

func main() {
	if len(os.Args) < 2 {
		fmt.Fprintln(os.Stderr, "usage: gosmt run|check|selftest ...")
		os.Exit(2)
	}
	switch os.Args[1] {
	case "run":
		os.Exit(cmdRun(os.Args[2:]))
	case "check":
		os.Exit(cmdCheck(os.Args[2:]))
	case "replay":
		os.Exit(cmdReplay(os.Args[2:]))
	case "selftest":
		os.Exit(cmdSelftest(os.Args[2:]))
	default:
		fmt.Fprintln(os.Stderr, "unknown command", os.Args[1])
		os.Exit(2)
	}
}
