package edi

import (
	"io"

	"github.com/jf-tech/omniparser/idr"
	zz "github.com/jf-tech/omniparser/zzverif"
)

// ---- C07: tokenisation at unescaped delimiters ----

type zzCfg struct {
	comp, rep, rel bool
	nl             bool // segment delimiter is LF (a CR right before it is dropped) instead of ~
	two            bool // segment delimiter is the two-byte string "~\n" (a CR before it is data)
}

func (c zzCfg) seg() byte {
	if c.nl {
		return '\n'
	}
	return '~'
}

func (c zzCfg) decl() *FileDecl {
	d := &FileDecl{SegDelim: string([]byte{c.seg()}), ElemDelim: "*"}
	if c.two {
		d.SegDelim = "~\n"
	}
	if c.comp {
		d.CompDelim = zzStrPtr(":")
	}
	if c.rep {
		d.RepDelim = zzStrPtr("^")
	}
	if c.rel {
		d.ReleaseChar = zzStrPtr("?")
	}
	return d
}

type zzPiece struct {
	e, c int
	data []byte
}

// zzSpecSegments: independent left-to-right scan for unescaped segment delimiters.
func zzSpecSegments(in []byte, cfg zzCfg) (segs [][]byte, tail []byte) {
	start := 0
	esc := false
	for i := 0; i < len(in); i++ {
		b := in[i]
		switch {
		case esc:
			esc = false
		case cfg.rel && b == '?':
			esc = true
		case cfg.two:
			if b == '~' && i+1 < len(in) && in[i+1] == '\n' {
				segs = append(segs, in[start:i])
				start = i + 2
				i++
			}
		case b == cfg.seg():
			segs = append(segs, in[start:i]) // body without the delimiter
			start = i + 1
		}
	}
	return segs, in[start:]
}

// zzSpecSplit: DESIGN.md appendix A.3 — one pass with an escape flag; raw (still escaped) pieces.
func zzSpecSplit(body []byte, cfg zzCfg) []zzPiece {
	var out []zzPiece
	e, c := 0, 1
	cur := []byte{}
	esc := false
	for _, b := range body {
		switch {
		case esc:
			cur = append(cur, b)
			esc = false
		case cfg.rel && b == '?':
			cur = append(cur, b)
			esc = true
		case b == '*':
			out = append(out, zzPiece{e, c, cur})
			cur = []byte{}
			e++
			c = 1
		case cfg.rep && b == '^':
			out = append(out, zzPiece{e, c, cur})
			cur = []byte{}
			c = 1
		case cfg.comp && b == ':':
			out = append(out, zzPiece{e, c, cur})
			cur = []byte{}
			c++
		default:
			cur = append(cur, b)
		}
	}
	out = append(out, zzPiece{e, c, cur})
	return out
}

func zzOnlyCRLF(b []byte) bool {
	for _, x := range b {
		if x != '\n' && x != '\r' {
			return false
		}
	}
	return true
}

func zzBytesEq(a, b []byte) bool {
	if len(a) != len(b) {
		return false
	}
	for i := range a {
		if a[i] != b[i] {
			return false
		}
	}
	return true
}

func zzAlphabet(in []byte, cfg zzCfg, wide bool) {
	set := "~*A\n"
	if cfg.nl {
		set = "*A\n\r"
	}
	if cfg.two {
		set = "~*A\n\r"
	}
	if cfg.comp {
		set += ":"
	}
	if cfg.rep {
		set += "^"
	}
	if cfg.rel {
		set += "?"
	}
	if wide {
		// one 2-byte rune (é = C3 A9); validity of the whole string is assumed below
		set += "\xC3\xA9"
	}
	for i := 0; i < len(in); i++ {
		zz.Assume(zz.ByteIn(in[i], set))
	}
	if wide {
		// valid UTF-8: C3 always followed by A9, A9 always preceded by C3
		for i := 0; i < len(in); i++ {
			if i+1 < len(in) {
				zz.Assume(zz.Implies(in[i] == 0xC3, in[i+1] == 0xA9))
			} else {
				zz.Assume(in[i] != 0xC3)
			}
			if i > 0 {
				zz.Assume(zz.Implies(in[i] == 0xA9, in[i-1] == 0xC3))
			} else {
				zz.Assume(in[i] != 0xA9)
			}
		}
	}
}

// C07TokenVsSpec: the segments and pieces NonValidatingReader returns for an arbitrary
// input equal the reference tokenisation.
func C07TokenVsSpec() {
	L := zz.Param("L", 4)
	k := zz.NondetChoice("cfg", 6)
	cfg := []zzCfg{{comp: true, rep: true, rel: true}, {comp: true, rel: true}, {rel: true}, {comp: true, rep: true},
		{comp: true, rel: true, nl: true}, {rel: true, two: true}}[k]
	in := zz.NondetBytesN("in", zz.NondetChoice("len", L)+1)
	zzAlphabet(in, cfg, zz.Param("wide", 0) == 1)
	ReaderBufSize = zz.Param("bufsize", 128)
	r := NewNonValidatingReader(&zzChunkReader{data: in, failAt: -1}, cfg.decl())
	rawSegs, tail := zzSpecSegments(in, cfg)
	// a last segment without terminator is a segment too (end of input acts as delimiter)
	if !zzOnlyCRLF(tail) {
		rawSegs = append(rawSegs, tail)
	}
	var segs [][]byte
	for _, b := range rawSegs {
		if cfg.nl {
			// with LF as segment delimiter, tokens consisting of CR/LF only are skipped and a
			// CR right before the LF does not belong to the segment
			if zzOnlyCRLF(b) {
				continue
			}
			if len(b) > 0 && b[len(b)-1] == '\r' {
				b = b[:len(b)-1]
			}
		}
		segs = append(segs, b)
	}
	si := 0
	for i := 0; i < L+2; i++ {
		// the reference skips CR/LF-only tokens like the reader is documented to do
		seg, err := r.Read()
		if err == io.EOF {
			zz.Cover("eof")
			zz.Assert(si == len(segs), "EOF only after every segment (incl. an unterminated last one) was returned")
			return
		}
		zz.Assert(si < len(segs), "a segment is returned only where the reference finds one")
		want := zzSpecSplit(segs[si], cfg)
		si++
		if err != nil {
			zz.Cover("error")
			zz.Assert(IsErrInvalidEDI(err), "tokenizer errors are ErrInvalidEDI")
			zz.Assert(len(want[0].data) == 0, "the only tokenizer error is a missing segment name")
			return
		}
		zz.Cover("segment")
		zz.Assert(len(want[0].data) > 0, "empty segment name is an error")
		zz.Assert(len(seg.Elems) == len(want), "same number of elements/components as the reference")
		for j := range want {
			if j < len(seg.Elems) {
				zz.Assert(seg.Elems[j].ElemIndex == want[j].e && seg.Elems[j].CompIndex == want[j].c, "element/component indices as the reference")
				zz.Assert(zzBytesEq(seg.Elems[j].Data, want[j].data), "piece bytes exactly between unescaped delimiters")
			}
		}
		zz.Assert(seg.Name == string(want[0].data), "segment name is the first piece")
	}
	zz.Fail("no terminal result within L+2 reads")
}


// ---- round trip: logical values -> escaped segment -> reader -> element nodes ----

func zzEscape(v []byte, cfg zzCfg) []byte {
	var out []byte
	for _, b := range v {
		if b == '~' || b == '*' || (cfg.comp && b == ':') || (cfg.rep && b == '^') || b == '?' {
			out = append(out, '?')
		}
		out = append(out, b)
	}
	return out
}

// C07Roundtrip: values made of delimiter, release and ordinary bytes survive
// encode -> tokenise -> unescape unchanged; missing elements follow the default rules.
func C07Roundtrip() {
	VL := zz.Param("VL", 2)
	cfg := zzCfg{comp: true, rep: zz.NondetBool("rep"), rel: true}
	shape := zz.NondetChoice("shape", 4)
	nelem := 1 + shape%2
	ncomp := 1 + shape/2
	// variant: 0 plain, 1 first element declared twice, 2 missing element (fatal),
	// 3 missing with empty_if_missing, 4 missing with default
	variant := zz.NondetChoice("variant", 5)
	vals := make([][][]byte, nelem)
	input := []byte{'S'}
	var elems []Elem
	budget := VL
	for e := 0; e < nelem; e++ {
		input = append(input, '*')
		vals[e] = make([][]byte, ncomp)
		for c := 0; c < ncomp; c++ {
			// the values share a budget of VL symbolic bytes in total
			v := zz.NondetBytes("v", budget)
			budget -= len(v)
			for _, b := range v {
				zz.Assume(zz.ByteIn(b, "~*:^?A"))
			}
			vals[e][c] = v
			if c > 0 {
				input = append(input, ':')
			}
			input = append(input, zzEscape(v, cfg)...)
			elems = append(elems, Elem{Name: "e" + string(rune('1'+e)) + "c" + string(rune('1'+c)), Index: e + 1, CompIndex: zzIntPtr(c + 1)})
		}
	}
	input = append(input, '~')
	// declarations need not follow the order of the data: ascending or descending
	// (element, component) order
	type ec struct{ e, c int }
	var order []ec
	for e := 0; e < nelem; e++ {
		for c := 0; c < ncomp; c++ {
			order = append(order, ec{e, c})
		}
	}
	if zz.NondetBool("declaredDescending") {
		for i, j := 0, len(order)-1; i < j; i, j = i+1, j-1 {
			order[i], order[j] = order[j], order[i]
			elems[i], elems[j] = elems[j], elems[i]
		}
	}
	switch variant {
	case 1:
		elems = append(elems, Elem{Name: "dup", Index: 1, CompIndex: zzIntPtr(1)})
	case 2:
		elems = append(elems, Elem{Name: "m", Index: nelem + 1})
	case 3:
		elems = append(elems, Elem{Name: "m", Index: nelem + 1, EmptyIfMissing: true})
	case 4:
		elems = append(elems, Elem{Name: "m", Index: nelem + 1, Default: zzStrPtr("dflt")})
	}
	decl := cfg.decl()
	decl.SegDecls = []*SegDecl{{Name: "S", IsTarget: true, Max: zzIntPtr(-1), Elems: elems}}
	zz.Assume((&ediValidateCtx{}).validateFileDecl(decl) == nil)
	if zz.Param("FREEZE", 0) == 1 {
		zz.Freeze(decl)
	}
	inputCopy := append([]byte{}, input...)
	src := &zzChunkReader{data: input, failAt: -1}
	r, err := NewReader("in", src, decl, "")
	zz.Assume(err == nil)
	n, err := r.Read()
	if variant == 2 {
		zz.Cover("missing-fatal")
		zz.Assert(n == nil && err != nil && IsErrInvalidEDI(err) && !r.IsContinuableError(err), "declared element absent from the segment is a fatal error")
		return
	}
	zz.Assert(err == nil && n != nil, "well-formed segment is delivered")
	zz.Cover("delivered")
	child := n.FirstChild
	for _, o := range order {
		zz.Assert(child != nil && child.FirstChild != nil, "one node per declared element")
		zz.Assert(child.FirstChild.Data == string(vals[o.e][o.c]), "element text equals the logical value (release characters removed)")
		child = child.NextSibling
	}
	switch variant {
	case 1:
		zz.Cover("dup")
		zz.Assert(child != nil && child.FirstChild != nil && child.FirstChild.Data == string(vals[0][0]),
			"an element declared twice yields the same value both times")
	case 3:
		zz.Assert(child != nil && child.FirstChild.Data == "", "empty_if_missing yields empty text")
	case 4:
		zz.Assert(child != nil && child.FirstChild.Data == "dflt", "default yields the default text")
	}
	// the input bytes the source handed out are not modified by the reader
	zz.Assert(zzBytesEq(src.data, inputCopy), "source bytes untouched")
	_ = idr.ElementNode
}

// ---- C09: chunk-schedule independence of the segment scanner ----

type zzSegResult struct {
	err  int // 0 ok, 1 EOF, 2 other
	name string
	raw  []byte
	n    int
}

func zzDrain(r *NonValidatingReader, max int) []zzSegResult {
	var out []zzSegResult
	for i := 0; i < max; i++ {
		seg, err := r.Read()
		if err == io.EOF {
			return append(out, zzSegResult{err: 1})
		}
		if err != nil {
			return append(out, zzSegResult{err: 2})
		}
		out = append(out, zzSegResult{name: seg.Name, raw: append([]byte{}, seg.Raw...), n: len(seg.Elems)})
	}
	return out
}

// C09EdiScan: the token sequence does not depend on how the reader cuts the bytes
// (1..len chunks, empty reads, data together with EOF), also with a scanner buffer smaller
// than a segment and with CR/LF removal switched on.
func C09EdiScan() {
	L := zz.Param("L", 4)
	cfg := zzCfg{comp: true, rep: false, rel: true}
	in := zz.NondetBytesN("in", zz.NondetChoice("len", L)+1)
	crlf := zz.NondetBool("ignore_crlf")
	for _, b := range in {
		if crlf {
			zz.Assume(zz.ByteIn(b, "~A?\n\r"))
		} else {
			zz.Assume(zz.ByteIn(b, "~A?\n"))
		}
	}
	decl := cfg.decl()
	decl.IgnoreCRLF = crlf
	ReaderBufSize = zz.Param("bufsize", 2)
	a := zzDrain(NewNonValidatingReader(&zzChunkReader{data: in, failAt: -1}, decl), L+2)
	b := zzDrain(NewNonValidatingReader(&zzChunkReader{data: in, failAt: -1, chunked: true}, decl), L+2)
	zz.Assert(len(a) == len(b), "same number of results under any chunking")
	for i := range a {
		if i < len(b) {
			zz.Assert(a[i].err == b[i].err && a[i].name == b[i].name && a[i].n == b[i].n && zzBytesEq(a[i].raw, b[i].raw),
				"same segment under any chunking")
		}
	}
	zz.Cover("compared")
}

// ---- C16: a failing source ends the EDI reader with a fatal, non-EOF error ----

func C16Edi() {
	L := zz.Param("L", 4)
	in := zz.NondetBytesN("in", zz.NondetChoice("len", L)+1)
	for _, b := range in {
		zz.Assume(zz.ByteIn(b, "~*S1"))
	}
	decl := &FileDecl{SegDelim: "~", ElemDelim: "*",
		SegDecls: []*SegDecl{{Name: "S", IsTarget: true, Min: zzIntPtr(0), Max: zzIntPtr(-1)}}}
	zz.Assume((&ediValidateCtx{}).validateFileDecl(decl) == nil)
	failAt := zz.NondetChoice("failAt", len(in)+1)
	// fault-free twin
	ra, _ := NewReader("in", &zzChunkReader{data: in, failAt: -1}, decl, "")
	var want []string
	for i := 0; i < L+2; i++ {
		n, err := ra.Read()
		if err != nil {
			break
		}
		want = append(want, idrText(n))
		ra.Release(n)
	}
	rb, _ := NewReader("in", &zzChunkReader{data: in, failAt: failAt, ioErr: zzPickIOErr()}, decl, "")
	got := 0
	pending := ""
	havePending := false
	for i := 0; i < L+3; i++ {
		n, err := rb.Read()
		if err == nil {
			// every result before the fatal one, except possibly the last, equals the fault-free run
			if havePending {
				zz.Assert(got-1 < len(want) && pending == want[got-1], "results before the fault (except possibly the last) equal the fault-free run")
			}
			pending = idrText(n)
			havePending = true
			got++
			rb.Release(n)
			continue
		}
		zz.Assert(err != io.EOF, "a failing source never ends in a clean EOF")
		if rb.IsContinuableError(err) {
			zz.Fail("a source failure surfaced as a continuable error")
		}
		zz.Cover("fatal")
		// (a format error in the data before the fault is a fatal error too; terminal
		// stickiness is the transform latch's job, see C01LatchStep)
		return
	}
	zz.Fail("no fatal error within the read bound")
}

func idrText(n *idr.Node) string {
	s := n.Data
	for c := n.FirstChild; c != nil; c = c.NextSibling {
		s += "(" + idrText(c) + ")"
	}
	return s
}

func zzCountNodes(n *idr.Node) int {
	k := 1
	for c := n.FirstChild; c != nil; c = c.NextSibling {
		k += zzCountNodes(c)
	}
	return k
}

// C17Edi: repeated target segments (some filtered out by the FINAL_OUTPUT xpath, evaluated
// by the real xpath engine): what stays reachable from the reader's root after each
// delivered-and-released record does not grow.
func C17Edi() {
	N := zz.Param("N", 3)
	decl := &FileDecl{SegDelim: "~", ElemDelim: "*", SegDecls: []*SegDecl{
		{Name: "H", Elems: []Elem{{Name: "h", Index: 1}}},
		{Name: "G", Type: zzStrPtr(segTypeGroup), IsTarget: true, Min: zzIntPtr(0), Max: zzIntPtr(-1), Children: []*SegDecl{
			{Name: "S", Elems: []Elem{{Name: "e", Index: 1}}},
			{Name: "D", Min: zzIntPtr(0), Elems: []Elem{{Name: "d", Index: 1}}},
		}},
	}}
	zz.Assume((&ediValidateCtx{}).validateFileDecl(decl) == nil)
	input := []byte("H*0~")
	for i := 0; i < N; i++ {
		v := zz.NondetBytesN("v", 1)
		zz.Assume(zz.ByteIn(v[0], "12"))
		input = append(input, 'S', '*')
		input = append(input, v...)
		input = append(input, '~', 'D', '*', 'x', '~')
	}
	filtered := zz.NondetBool("filter")
	xp := ""
	if filtered {
		xp = ".[S/e='1']"
	}
	r, err := NewReader("in", &zzChunkReader{data: input, failAt: -1}, decl, xp)
	zz.Assume(err == nil)
	first := -1
	for i := 0; i < N+1; i++ {
		n, err := r.Read()
		if err != nil {
			zz.Cover("eof")
			zz.Assert(err == io.EOF, "well-formed input ends with EOF")
			return
		}
		zz.Cover("record")
		r.Release(n)
		size := zzCountNodes(r.stack[0].segNode)
		if first < 0 {
			first = size
		}
		zz.Assert(size <= first, "retained tree does not grow with the number of records delivered or filtered out")
	}
}

// C07Wide: sizes beyond every built-in capacity hint: one segment with N elements (N past the
// 32-element pre-allocation) of symbolic content, with and without a release character
// declared: every element comes back as its own piece with its own bytes, in order.
func C07Wide() {
	N := zz.Param("N", 40)
	rel := zz.NondetBool("releaseDeclared")
	cfg := zzCfg{comp: false, rep: false, rel: rel}
	in := []byte{'S'}
	var vals [][]byte
	for i := 0; i < N; i++ {
		v := zz.NondetBytesN("v", 1)
		zz.Assume(zz.ByteIn(v[0], "Ab1 "))
		in = append(in, '*')
		in = append(in, v...)
		vals = append(vals, v)
	}
	in = append(in, '~')
	r := NewNonValidatingReader(&zzChunkReader{data: in, failAt: -1}, cfg.decl())
	seg, err := r.Read()
	zz.Assert(err == nil, "the segment is delivered")
	zz.Assert(len(seg.Elems) == N+1, "one piece per element, however many there are")
	if len(seg.Elems) == N+1 {
		for i, v := range vals {
			e := seg.Elems[i+1]
			zz.Assert(e.ElemIndex == i+1 && e.CompIndex == 1 && zzBytesEq(e.Data, v), "element i carries its own bytes")
		}
	}
	_, err = r.Read()
	zz.Assert(err == io.EOF, "then EOF")
	zz.Cover("wide")
}

// C09EdiPadding: ignore_crlf with a long run of CR/LF bytes (blank-line padding between and
// after segments, longer than bufio.Scanner's tolerance for empty reads) delivered one byte per
// Read gives the same segments as the one-shot delivery.
func C09EdiPadding() {
	P := zz.Param("P", 120)
	cfg := zzCfg{comp: false, rep: false, rel: false}
	mk := func(tag string) []byte {
		v := zz.NondetBytesN(tag, 1)
		zz.Assume(zz.ByteIn(v[0], "AB"))
		return v
	}
	in := append(mk("s1"), '~')
	for i := 0; i < P; i++ {
		if zz.Param("CRONLY", 0) == 1 || i%2 == 0 {
			in = append(in, '\r')
		} else {
			in = append(in, '\n')
		}
	}
	in = append(in, mk("s2")...)
	in = append(in, '~')
	if zz.NondetBool("trailingPadding") {
		for i := 0; i < P; i++ {
			in = append(in, '\n')
		}
	}
	decl := cfg.decl()
	decl.IgnoreCRLF = true
	one := &zzChunkReader{data: in, failAt: -1}
	var cuts []int
	for i := 1; i < len(in); i++ {
		cuts = append(cuts, i)
	}
	bytewise := &zzChunkReader{data: in, failAt: -1, cuts: cuts}
	a := zzDrain(NewNonValidatingReader(one, decl), 4)
	b := zzDrain(NewNonValidatingReader(bytewise, decl), 4)
	zz.Assert(len(a) == len(b), "same number of results under byte-wise delivery")
	for i := range a {
		if i < len(b) {
			zz.Assert(a[i].err == b[i].err && a[i].name == b[i].name && a[i].n == b[i].n && zzBytesEq(a[i].raw, b[i].raw),
				"same segment under byte-wise delivery")
		}
	}
	zz.Assert(len(a) == 3 && a[0].err == 0 && a[1].err == 0 && a[2].err == 1, "two segments, then EOF")
	zz.Cover("compared")
}
