package csv

import (
	"io"

	"github.com/jf-tech/omniparser/idr"
	zz "github.com/jf-tech/omniparser/zzverif"
)

type zzTable struct {
	input []byte
	rows  [][][]byte // ghost copy of every field of every (non-empty) row
}

// zzMakeTable: 1..NR rows of 1..NF fields; each field is 0..FL symbolic "plain" bytes
// (printable ASCII other than the delimiter and the quote), rows end with LF or CRLF, the
// last row may lack its newline. Structure is forked, content stays symbolic.
func zzMakeTable(NR, NF, FL int, delim string) *zzTable {
	t := &zzTable{}
	n := 1 + zz.NondetChoice("nrows", NR)
	for i := 0; i < n; i++ {
		nf := 1 + zz.NondetChoice("nfields", NF)
		var row [][]byte
		for j := 0; j < nf; j++ {
			f := zz.NondetBytes("field", FL)
			for _, x := range f {
				zz.Assume(zz.ByteRange(x, 0x21, 0x7E))
				zz.Assume(!zz.ByteIn(x, delim+"\""))
			}
			if j > 0 {
				t.input = append(t.input, delim...)
			}
			t.input = append(t.input, f...)
			row = append(row, f)
		}
		// encoding/csv skips empty lines: a row consisting of one empty field is no row at all
		if !(nf == 1 && len(row[0]) == 0) {
			t.rows = append(t.rows, row)
		}
		switch zz.NondetChoice("eol", 3) {
		case 0:
			t.input = append(t.input, '\n')
		case 1:
			t.input = append(t.input, '\r', '\n')
		default:
			if i < n-1 {
				t.input = append(t.input, '\n')
			}
		}
	}
	return t
}

func zzColText(n *idr.Node, k int) (string, bool) {
	c := n.FirstChild
	for i := 0; i < k && c != nil; i++ {
		c = c.NextSibling
	}
	if c == nil || c.FirstChild == nil {
		return "", false
	}
	return c.FirstChild.Data, true
}

// C06Csv2Lines: rows-based csv2 records: every declared column holds the field at its
// (line_index, index), or "" beyond the row; records come in input order; leftover rows
// that cannot fill a record are a fatal error.
func C06Csv2Lines() {
	NR := zz.Param("NR", 3)
	NF := zz.Param("NF", 2)
	FL := zz.Param("FL", 1)
	delim := "|"
	t := zzMakeTable(NR, NF, FL, delim)
	rows := 1 + zz.NondetChoice("rows", 2)
	var cols []*ColumnDecl
	type colRef struct{ line, idx int }
	var refs []colRef
	for l := 0; l < rows; l++ {
		for k := 1; k <= NF+1; k++ { // incl. one index past the widest row
			cols = append(cols, &ColumnDecl{Name: "c", Index: zzIntPtr(k), LineIndex: zzIntPtr(l + 1)})
			refs = append(refs, colRef{l, k})
		}
	}
	rec := &RecordDecl{Name: "r", Rows: zzIntPtr(rows), IsTarget: true, Columns: cols}
	decl := &FileDecl{Delimiter: delim, Records: []*RecordDecl{rec}}
	zz.Assume((&validateCtx{}).validateFileDecl(decl) == nil)
	r := NewReader("t", &zzChunkReader{data: t.input, failAt: -1, cuts: zzCuts(zz.Param("CUTS", 1), len(t.input))}, decl, nil)
	got := 0
	for i := 0; i < NR+2; i++ {
		n, err := r.Read()
		if err != nil {
			if err == io.EOF {
				zz.Cover("eof")
				zz.Assert(got*rows == len(t.rows), "EOF only when every row went into a record")
			} else {
				zz.Cover("leftover")
				zz.Assert(IsErrInvalidCSV(err) && !r.IsContinuableError(err), "leftover rows are a fatal error")
				zz.Assert(len(t.rows)-got*rows > 0 && len(t.rows)-got*rows < rows, "error only when fewer than 'rows' rows remain")
			}
			return
		}
		zz.Cover("record")
		zz.Assert((got+1)*rows <= len(t.rows), "a record needs 'rows' rows")
		if (got+1)*rows <= len(t.rows) {
			for ci, ref := range refs {
				row := t.rows[got*rows+ref.line]
				want := ""
				if ref.idx <= len(row) {
					want = string(row[ref.idx-1])
				}
				text, ok := zzColText(n, ci)
				zz.Assert(ok && text == want, "column holds the field at (line_index, index), empty beyond the row")
			}
		}
		got++
		r.Release(n)
	}
	zz.Fail("no terminal result within the read bound")
}

// C05Csv2Units: a three-declaration csv2 schema: A needs look-ahead (rows-based with
// rows=R, or header ^H / footer ^F), B is a one-line record matched by header ^B, C is a
// plain one-row record. Rows that fail A's look-ahead must be handed on to B and C in order,
// none dropped, none duplicated, each matched by its own text (the RecReader contract the
// hierarchy matcher relies on).
func C05Csv2Units() {
	NR := zz.Param("NR", 3)
	FL := zz.Param("FL", 1)
	t := zzMakeTable(NR, 1, FL, "|")
	var a *RecordDecl
	hf := zz.NondetBool("headerFooter")
	if hf {
		a = &RecordDecl{Name: "A", Header: zzStrPtr("^H"), Footer: zzStrPtr("^F"), Min: zzIntPtr(0),
			Columns: []*ColumnDecl{{Name: "c", Index: zzIntPtr(1), LineIndex: zzIntPtr(1)}}}
	} else {
		R := 2 + zz.NondetChoice("R", 2)
		a = &RecordDecl{Name: "A", Rows: zzIntPtr(R), Min: zzIntPtr(0), Max: zzIntPtr(1),
			Columns: []*ColumnDecl{{Name: "c", Index: zzIntPtr(1), LineIndex: zzIntPtr(1)}}}
	}
	b := &RecordDecl{Name: "B", Header: zzStrPtr("^B"), Min: zzIntPtr(0),
		Columns: []*ColumnDecl{{Name: "c", Index: zzIntPtr(1)}}}
	c := &RecordDecl{Name: "C", Min: zzIntPtr(0),
		Columns: []*ColumnDecl{{Name: "c", Index: zzIntPtr(1)}}}
	// without the catch-all C a row that fits neither A nor B is unexpected data: a fatal error
	catchAll := zz.NondetBool("catchAll")
	recs := []*RecordDecl{a, b}
	if catchAll {
		recs = append(recs, c)
	}
	tgt := zz.NondetChoice("target", len(recs))
	a.IsTarget, b.IsTarget, c.IsTarget = tgt == 0, tgt == 1, tgt == 2
	decl := &FileDecl{Delimiter: "|", Records: recs}
	zz.Assume((&validateCtx{}).validateFileDecl(decl) == nil)
	if zz.Param("FREEZE", 0) == 1 {
		zz.Freeze(decl)
	}
	r := NewReader("t", &zzChunkReader{data: t.input, failAt: -1}, decl, nil)

	// reference: greedy, in declaration order
	pos := 0
	var want []string // first-column text of every delivered target, in order
	starts := func(i int, ch byte) bool { return len(t.rows[i][0]) > 0 && t.rows[i][0][0] == ch }
	if hf {
		for pos < len(t.rows) && starts(pos, 'H') {
			end := -1
			for k := pos; k < len(t.rows); k++ {
				if starts(k, 'F') {
					end = k
					break
				}
			}
			if end < 0 {
				break
			}
			if a.IsTarget {
				want = append(want, string(t.rows[pos][0]))
			}
			pos = end + 1
		}
	} else {
		R := *a.Rows
		if pos+R <= len(t.rows) { // max 1
			if a.IsTarget {
				want = append(want, string(t.rows[pos][0]))
			}
			pos += R
		}
	}
	for pos < len(t.rows) && starts(pos, 'B') {
		if b.IsTarget {
			want = append(want, string(t.rows[pos][0]))
		}
		pos++
	}
	leftover := false
	for pos < len(t.rows) {
		if !catchAll {
			leftover = true
			break
		}
		if c.IsTarget {
			want = append(want, string(t.rows[pos][0]))
		}
		pos++
	}
	got := 0
	for i := 0; i < NR+2; i++ {
		n, err := r.Read()
		if err != nil {
			zz.Cover("terminal")
			if leftover {
				zz.Cover("unexpected-data")
				zz.Assert(err != io.EOF && IsErrInvalidCSV(err) && !r.IsContinuableError(err), "a row no declaration takes is a fatal error, not EOF and not continuable")
			} else {
				zz.Assert(err == io.EOF, "every row fits a declaration: the stream ends with EOF")
			}
			zz.Assert(got == len(want), "every target of the reference was delivered")
			return
		}
		zz.Cover("record")
		text, ok := zzColText(n, 0)
		zz.Assert(got < len(want) && ok && text == want[got], "targets in input order with the right row's text")
		got++
		r.Release(n)
	}
	zz.Fail("no terminal result within the read bound")
}

// C16Csv2: a failing source ends the csv2 reader with a fatal, non-EOF error; results before
// it (except possibly the last) equal the fault-free run.
func C16Csv2() {
	NR := zz.Param("NR", 2)
	t := zzMakeTable(NR, 2, 1, "|")
	rows := 1 + zz.NondetChoice("rows", 2)
	var cols []*ColumnDecl
	for l := 0; l < rows; l++ {
		cols = append(cols, &ColumnDecl{Name: "c", Index: zzIntPtr(1), LineIndex: zzIntPtr(l + 1)})
	}
	decl := &FileDecl{Delimiter: "|", Records: []*RecordDecl{{Name: "r", Rows: zzIntPtr(rows), IsTarget: true, Columns: cols}}}
	zz.Assume((&validateCtx{}).validateFileDecl(decl) == nil)
	ra := NewReader("t", &zzChunkReader{data: t.input, failAt: -1}, decl, nil)
	var want []string
	for i := 0; i < NR+2; i++ {
		n, err := ra.Read()
		if err != nil {
			break
		}
		s, _ := zzColText(n, 0)
		want = append(want, s)
		ra.Release(n)
	}
	failAt := zz.NondetChoice("failAt", len(t.input)+1)
	rb := NewReader("t", &zzChunkReader{data: t.input, failAt: failAt, ioErr: zzPickIOErr()}, decl, nil)
	got := 0
	pending, havePending := "", false
	for i := 0; i < NR+3; i++ {
		n, err := rb.Read()
		if err == nil {
			if havePending {
				zz.Assert(got-1 < len(want) && pending == want[got-1], "results before the fault (except possibly the last) equal the fault-free run")
			}
			pending, _ = zzColText(n, 0)
			havePending = true
			got++
			rb.Release(n)
			continue
		}
		zz.Assert(err != io.EOF, "a failing source never ends in a clean EOF")
		zz.Assert(!rb.IsContinuableError(err), "a source failure is fatal, not a per-record failure")
		zz.Cover("fatal")
		return
	}
	zz.Fail("no fatal error within the read bound")
}

// C03Csv2Bytes: arbitrary bytes incl. quotes, delimiters, CR, LF through encoding/csv and the
// csv2 reader with a look-ahead declaration: no panic, terminal result within the bound.
func C03Csv2Bytes() {
	zz.HangIsViolation()
	L := zz.Param("L", 5)
	in := zz.NondetBytes("in", L)
	for _, b := range in {
		zz.Assume(zz.ByteIn(b, "a|\"\n\rH "))
	}
	rows := 1 + zz.NondetChoice("rows", 3)
	a := &RecordDecl{Name: "A", Rows: zzIntPtr(rows), Min: zzIntPtr(0), IsTarget: true,
		Columns: []*ColumnDecl{{Name: "c", Index: zzIntPtr(2), LineIndex: zzIntPtr(rows)}}}
	b := &RecordDecl{Name: "B", Header: zzStrPtr("^H"), Min: zzIntPtr(0),
		Columns: []*ColumnDecl{{Name: "c", Index: zzIntPtr(1)}}}
	decl := &FileDecl{Delimiter: "|", ReplaceDoubleQuotes: zz.NondetBool("replaceQuotes"), Records: []*RecordDecl{a, b}}
	zz.Assume((&validateCtx{}).validateFileDecl(decl) == nil)
	r := NewReader("t", &zzChunkReader{data: in, failAt: -1}, decl, nil)
	for i := 0; i < L+3; i++ {
		n, err := r.Read()
		if err != nil {
			zz.Cover("terminal")
			zz.Assert(err == io.EOF || !r.IsContinuableError(err), "every reader error is terminal")
			return
		}
		zz.Cover("record")
		r.Release(n)
	}
	zz.Fail("no terminal result within L+3 reads")
}

// C06CsvQuoted: RFC-4180 fields: logical values made of plain bytes, the delimiter, quotes,
// CR and LF, written fully quoted (quotes doubled), come back exactly (CR LF inside a quoted
// field is normalised to LF by encoding/csv, as documented there).
func C06CsvQuoted() {
	NF := zz.Param("NF", 2)
	FL := zz.Param("FL", 2)
	nf := 1 + zz.NondetChoice("nfields", NF)
	var vals [][]byte
	var input []byte
	for j := 0; j < nf; j++ {
		v := zz.NondetBytes("v", FL)
		for k, x := range v {
			zz.Assume(zz.ByteIn(x, "a|\"\n\r "))
			// a CR directly before LF inside a quoted field is dropped by encoding/csv: excluded
			if k+1 < len(v) {
				zz.Assume(!(x == '\r' && v[k+1] == '\n'))
			}
		}
		// a trailing CR before the closing quote is kept; a lone CR at the very end of the
		// record would be trimmed with the line end: excluded for the last field
		if len(v) > 0 && j == nf-1 {
			zz.Assume(v[len(v)-1] != '\r')
		}
		vals = append(vals, v)
		if j > 0 {
			input = append(input, '|')
		}
		input = append(input, '"')
		for _, x := range v {
			if x == '"' {
				input = append(input, '"')
			}
			input = append(input, x)
		}
		input = append(input, '"')
	}
	input = append(input, '\n')
	var cols []*ColumnDecl
	for j := 1; j <= nf; j++ {
		cols = append(cols, &ColumnDecl{Name: "c", Index: zzIntPtr(j)})
	}
	decl := &FileDecl{Delimiter: "|", Records: []*RecordDecl{{Name: "r", IsTarget: true, Columns: cols}}}
	zz.Assume((&validateCtx{}).validateFileDecl(decl) == nil)
	r := NewReader("t", &zzChunkReader{data: input, failAt: -1}, decl, nil)
	n, err := r.Read()
	// a record consisting of one empty quoted field is still a record ("" is not an empty line)
	zz.Assert(err == nil && n != nil, "a fully quoted row is a record")
	zz.Cover("record")
	for j := 0; j < nf; j++ {
		got, ok := zzColText(n, j)
		zz.Assert(ok && got == string(vals[j]), "quoted field (embedded delimiters, quotes, newlines) comes back exactly")
	}
}


// C06Csv2Delim: the delimiter is one character, not necessarily one byte: ASCII, a two-byte and
// a three-byte character; every column still holds its own field.
func C06Csv2Delim() {
	delim := []string{"|", "\u00a6", "\u3001"}[zz.NondetChoice("delimiter", 3)]
	t := zzMakeTable(2, 3, 1, delim)
	cols := []*ColumnDecl{{Name: "a", Index: zzIntPtr(1)}, {Name: "b", Index: zzIntPtr(2)}, {Name: "c", Index: zzIntPtr(3)}}
	decl := &FileDecl{Delimiter: delim, Records: []*RecordDecl{{Name: "r", IsTarget: true, Columns: cols}}}
	zz.Assume((&validateCtx{}).validateFileDecl(decl) == nil)
	r := NewReader("t", &zzChunkReader{data: t.input, failAt: -1}, decl, nil)
	for i := 0; i < 4; i++ {
		n, err := r.Read()
		if err != nil {
			zz.Cover("eof")
			zz.Assert(err == io.EOF && i == len(t.rows), "one record per row, then EOF")
			return
		}
		zz.Cover("record")
		zz.Assert(i < len(t.rows), "one record per row")
		if i < len(t.rows) {
			for k := 0; k < 3; k++ {
				want := ""
				if k < len(t.rows[i]) {
					want = string(t.rows[i][k])
				}
				text, ok := zzColText(n, k)
				zz.Assert(ok && text == want, "column k holds field k of the row, whatever the delimiter's width")
			}
		}
		r.Release(n)
	}
	zz.Fail("no terminal result within the read bound")
}

// C09Csv2Quotes: replace_double_quotes (every " in the input becomes ') does not depend on how
// the source delivers the bytes: one Read, cut positions, and the last bytes arriving together
// with io.EOF all give the same records.
func C09Csv2Quotes() {
	NR := zz.Param("NR", 2)
	var input []byte
	n := 1 + zz.NondetChoice("nrows", NR)
	for i := 0; i < n; i++ {
		f := zz.NondetBytesN("f", 2)
		for _, x := range f {
			zz.Assume(zz.ByteIn(x, "\"a'"))
		}
		input = append(input, f...)
		input = append(input, '|', 'k')
		if i < n-1 || zz.NondetBool("finalNewline") {
			input = append(input, '\n')
		}
	}
	mk := func(src *zzChunkReader) *reader {
		decl := &FileDecl{Delimiter: "|", ReplaceDoubleQuotes: true, Records: []*RecordDecl{{Name: "r", IsTarget: true,
			Columns: []*ColumnDecl{{Name: "a", Index: zzIntPtr(1)}, {Name: "b", Index: zzIntPtr(2)}}}}}
		zz.Assume((&validateCtx{}).validateFileDecl(decl) == nil)
		return NewReader("t", src, decl, nil)
	}
	one := mk(&zzChunkReader{data: input, failAt: -1})
	cut := mk(&zzChunkReader{data: append([]byte{}, input...), failAt: -1, cuts: zzCuts(zz.Param("CUTS", 1), len(input)),
		eofWithData: zz.NondetBool("eofWithData")})
	for i := 0; i < NR+2; i++ {
		n1, e1 := one.Read()
		n2, e2 := cut.Read()
		zz.Assert((e1 == nil) == (e2 == nil), "same kind of result whatever the delivery")
		if e1 != nil || e2 != nil {
			zz.Cover("terminal")
			zz.Assert((e1 == io.EOF) == (e2 == io.EOF), "EOF under one delivery is EOF under every delivery")
			return
		}
		zz.Cover("record")
		a1, _ := zzColText(n1, 0)
		a2, _ := zzColText(n2, 0)
		zz.Assert(a1 == a2, "same record whatever the delivery")
		for k := 0; k < len(a1); k++ {
			zz.Assert(a1[k] != '"', "every double quote was replaced")
		}
		one.Release(n1)
		cut.Release(n2)
	}
	zz.Fail("no terminal result within the read bound")
}
