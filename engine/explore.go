package main

// Path exploration by re-execution: a path is identified by its decision prefix; every
// symbolic branch / choice / concretisation / assume / assert is one positional entry.
// New alternatives found while running a path are queued as new prefixes. The SMT solver
// decides feasibility of every new alternative and every assertion.

import (
	"fmt"
	"os"
	"sort"
	"strings"
	"sync"
	"time"

	"golang.org/x/tools/go/ssa"
)

type Config struct {
	Unwind      int
	MaxDepth    int
	Solver      string
	TimeoutMs   int
	Workers     int
	MaxPaths    int
	MapOrder    int // 0 insertion order only, 1 forward+reverse, 2 all perms up to 3 then fwd/rev
	Params      map[string]int64
	Known       map[string]bool // known-finding ids with active carve-outs
	DeadlineSec int
	Validate    int // number of completed paths to produce replay vectors for (trace validation)
	Verbose     bool
	UnwindFn    map[string]int
	Redirect    map[string]string // real function (ssa name) -> harness function in the entry's package
	PureFns     map[string]bool   // real side-effect-free functions evaluated merged (callee summarisation)
}

type VecEntry struct {
	Name string
	T    *Term // nil ⇒ concrete Val
	Val  int64
}

type Violation struct {
	Label   string            `json:"label"`
	Kind    string            `json:"kind"` // assert | panic
	Pos     string            `json:"pos"`
	Vector  map[string]int64  `json:"vector"`
	Prefix  []int64           `json:"prefix"`
	Observe []string          `json:"observe,omitempty"`
	Extra   map[string]string `json:"extra,omitempty"`
}

type PathSample struct {
	Prefix  []int64          `json:"prefix"`
	Status  string           `json:"status"`
	Covers  []string         `json:"covers,omitempty"`
	Vector  map[string]int64 `json:"vector,omitempty"`
	Observe []string         `json:"observe,omitempty"`
	Steps   int64            `json:"steps"`
}

type AssertStat struct {
	Trivial  int `json:"trivial"` // condition folded to true on the path (decided by the forks before it)
	Checked  int `json:"checked"`
	Held     int `json:"held"`
	Violated int `json:"violated"`
}

type RunResult struct {
	Harness      string                 `json:"harness"`
	Paths        int                    `json:"paths"`
	Completed    int                    `json:"completed"`
	Pruned       int                    `json:"pruned"`
	Panics       int                    `json:"panics"`
	Unwinds      int                    `json:"unwinds"`
	Decisions    int64                  `json:"decisions"`
	Steps        int64                  `json:"steps"`
	Asserts      map[string]*AssertStat `json:"asserts"`
	Covers       map[string]int         `json:"covers"`
	Violations   []Violation            `json:"violations"`
	Inconclusive []string               `json:"inconclusive"`
	Queries      int                    `json:"queries"`
	QSat         int                    `json:"q_sat"`
	QUnsat       int                    `json:"q_unsat"`
	QUnknown     int                    `json:"q_unknown"`
	SolverTimeS  float64                `json:"solver_time_s"`
	WallS        float64                `json:"wall_s"`
	Functions    []string               `json:"functions"`
	Samples      []PathSample           `json:"samples"`
	Witnesses    []PathSample           `json:"witnesses"` // completed paths with vectors for native trace validation
	Notes        []string               `json:"notes,omitempty"`
	UnwindWhere  map[string]int         `json:"unwind_where,omitempty"`
	PanicWhere   map[string]int         `json:"panic_where,omitempty"`
	KnownSeen    map[string]int         `json:"known_seen,omitempty"`
}

type PathResult struct {
	status     string // completed | pruned | panic | unwind | unsupported
	why        string
	covers     []string
	violations []Violation
	asserts    map[string]*AssertStat
	observe    []obsEntry
	knownSeen  []string
	where      string
	witVec     map[string]int64
	witObs     []string
}

type obsEntry struct {
	label string
	vals  []Value
}

type Exec struct {
	prog *ssa.Program
	ts   *TermStore
	sol  *Solver
	cfg  *Config

	// per path
	prefix    []int64
	ndec      int
	alts      [][]int64
	known     map[*Term]bool
	vec       []VecEntry
	nondetCnt map[string]int
	globals   map[*ssa.Global]*Value
	initDone  map[*ssa.Package]bool
	depth     int
	steps     int64
	mapSeq    int
	frozen    map[*Value]bool
	cur       *PathResult
	poolBags  map[*Value]*poolBag
	ghost     map[string]Value
	uniq      int

	// per worker
	mapOrderMode  int
	sharedGlobals map[*ssa.Global]*Value
	sharedInit    map[*ssa.Package]bool
	funcsSeen     map[*ssa.Function]bool
	inconcl       map[string]bool
	notes         map[string]bool
	inInit        int
	newDecisions  int64
	domainPruned  int64
	wantWitness   func() bool
	initPkg       []*ssa.Package
	curFrame      *frame
	curInstr      ssa.Instruction
	entry         *ssa.Function
	redirCache    map[string]*ssa.Function
	pooled        map[*Value]bool
	pureDepth     int
	pureFork      int
	onceDone      map[*Value]bool
	panicking     *targetPanic
	domains       map[*Term][]uint64 // finite over-approximations of single variables' feasible values
	ipdomCache    map[*ssa.Function]map[*ssa.BasicBlock]*ssa.BasicBlock
	par           *parState
}

func (e *Exec) unwindLimit(fn *ssa.Function) int {
	if e.cfg.UnwindFn != nil {
		if n, ok := e.cfg.UnwindFn[fn.Name()]; ok {
			return n
		}
	}
	return e.cfg.Unwind
}

func (e *Exec) note(s string) { e.notes[s] = true }

func (e *Exec) assertPC(c *Term) {
	e.sol.Assert(c)
	e.setKnown(c, true)
	e.learnDomain(c)
	e.ts.LearnFromCond(c, true)
}

const maxDomain = 64

// learnDomain: a path constraint that mentions exactly one variable of at most 16 bits
// narrows that variable's finite domain (an over-approximation of its feasible values, used
// only to prune branches all of whose domain values agree; anything mixed goes to the solver).
func (e *Exec) learnDomain(c *Term) {
	v := c.soleVar()
	if v == nil || v.width == 0 || v.width > 16 {
		return
	}
	dom, have := e.domains[v]
	memo := map[*Term]uint64{}
	env := map[string]uint64{}
	var nd []uint64
	if have {
		for _, x := range dom {
			env[v.name] = x
			for k := range memo {
				delete(memo, k)
			}
			if c.Eval(env, memo) != 0 {
				nd = append(nd, x)
			}
		}
	} else {
		if v.width > 8 {
			return
		}
		for x := uint64(0); x < 1<<uint(v.width); x++ {
			env[v.name] = x
			for k := range memo {
				delete(memo, k)
			}
			if c.Eval(env, memo) != 0 {
				nd = append(nd, x)
				if len(nd) > maxDomain {
					return
				}
			}
		}
	}
	e.domains[v] = nd
}

// domainDecides: if c depends on one variable with a known finite domain and evaluates the
// same for every value of it, the branch is forced.
func (e *Exec) domainDecides(c *Term) (bool, bool) {
	v := c.soleVar()
	if v == nil {
		return false, false
	}
	dom, ok := e.domains[v]
	if !ok || len(dom) == 0 {
		return false, false
	}
	memo := map[*Term]uint64{}
	env := map[string]uint64{}
	first := uint64(0)
	for i, x := range dom {
		env[v.name] = x
		for k := range memo {
			delete(memo, k)
		}
		r := c.Eval(env, memo)
		if i == 0 {
			first = r
		} else if r != first {
			return false, false
		}
	}
	return first != 0, true
}

func (e *Exec) setKnown(c *Term, v bool) {
	for c.op == OpNot {
		c = c.args[0]
		v = !v
	}
	e.known[c] = v
	// conjunctions known true ⇒ both sides true; disjunction known false ⇒ both false
	if c.op == OpAnd && v {
		e.setKnown(c.args[0], true)
		e.setKnown(c.args[1], true)
	}
	if c.op == OpOr && !v {
		e.setKnown(c.args[0], false)
		e.setKnown(c.args[1], false)
	}
}

func (e *Exec) lookupKnown(c *Term) (bool, bool) { return e.lookupKnownD(c, 3) }

func (e *Exec) lookupKnownD(c *Term, depth int) (bool, bool) {
	neg := false
	for c.op == OpNot {
		c = c.args[0]
		neg = !neg
	}
	v, ok := e.known[c]
	if !ok {
		// cheap structural: and/or of known parts
		if depth > 0 && (c.op == OpAnd || c.op == OpOr) {
			a, oka := e.lookupKnownD(c.args[0], depth-1)
			b, okb := e.lookupKnownD(c.args[1], depth-1)
			if c.op == OpAnd {
				if (oka && !a) || (okb && !b) {
					return neg, true
				}
				if oka && okb {
					return (a && b) != neg, true
				}
			} else {
				if (oka && a) || (okb && b) {
					return !neg, true
				}
				if oka && okb {
					return (a || b) != neg, true
				}
			}
		}
		return false, false
	}
	return v != neg, true
}

func (e *Exec) checkWith(c *Term) SatResult {
	r := e.sol.CheckWith(c)
	if r == Unknown {
		msg := "solver unknown/timeout"
		if e.sol.SawError != "" {
			msg = "solver error: " + e.sol.SawError
			e.sol.SawError = ""
		}
		e.inconcl[msg] = true
	}
	return r
}

// decide: branch on a boolean term.
func (e *Exec) decide(c *Term) bool {
	if c.IsConst() {
		return c.val == 1
	}
	if v, ok := e.lookupKnown(c); ok {
		return v
	}
	if v, ok := e.domainDecides(c); ok {
		e.setKnown(c, v)
		e.domainPruned++
		return v
	}
	if e.pureDepth > 0 {
		panic(unsupported("symbolic decision inside ghost (spec/pure) code at " + e.where() + ": " + c.String()))
	}
	i := e.ndec
	e.ndec++
	if i < len(e.prefix) {
		switch e.prefix[i] {
		case 0:
			e.assertPC(e.ts.Not(c))
			return false
		case 1:
			e.assertPC(c)
			return true
		case 2:
			e.setKnown(c, false)
			return false
		case 3:
			e.setKnown(c, true)
			return true
		}
		panic(fmt.Sprintf("engine: bad decision value %d at %d", e.prefix[i], i))
	}
	e.newDecisions++
	if traceDecisions {
		fmt.Fprintf(os.Stderr, "DECIDE #%d at %s: %s\n", i, e.where(), c.String())
	}
	rT := e.checkWith(c)
	if rT == Unsat {
		e.prefix = append(e.prefix, 2)
		e.setKnown(c, false)
		return false
	}
	rF := e.checkWith(e.ts.Not(c))
	if rF == Unsat {
		e.prefix = append(e.prefix, 3)
		e.setKnown(c, true)
		return true
	}
	alt := append(append([]int64(nil), e.prefix[:i]...), 0)
	e.alts = append(e.alts, alt)
	e.prefix = append(e.prefix, 1)
	e.assertPC(c)
	return true
}

// choose: n-way concrete choice.
func (e *Exec) choose(n int, what string) int {
	if n <= 1 {
		return 0
	}
	i := e.ndec
	e.ndec++
	if i < len(e.prefix) {
		return int(e.prefix[i])
	}
	if traceDecisions {
		fmt.Fprintf(os.Stderr, "CHOOSE #%d at %s: %d %s\n", i, e.where(), n, what)
	}
	for k := n - 1; k >= 1; k-- {
		alt := append(append([]int64(nil), e.prefix[:i]...), int64(k))
		e.alts = append(e.alts, alt)
	}
	e.prefix = append(e.prefix, 0)
	return 0
}

const maxConcretize = 80

var traceDecisions = os.Getenv("GOSMT_TRACE") != ""

func (e *Exec) where() string {
	if e.curFrame == nil || e.curInstr == nil {
		return "?"
	}
	return e.curFrame.fn.String() + "@" + e.posStr(e.curInstr.Pos())
}

// concretizeInt: fork over all feasible values of t (must be few).
func (e *Exec) concretizeInt(t *Term, what string) int64 {
	if t.IsConst() {
		return t.SVal()
	}
	i := e.ndec
	e.ndec++
	if i < len(e.prefix) {
		v := e.prefix[i]
		e.assertPC(e.ts.Eq(t, e.ts.Const(t.width, uint64(v))))
		return v
	}
	e.newDecisions++
	var vals []int64
	e.sol.Push()
	e.sol.Prepare([]*Term{t})
	for {
		r := e.sol.Check()
		if r == Unknown {
			e.inconcl["solver unknown in concretize("+what+")"] = true
			break
		}
		if r == Unsat {
			break
		}
		v := e.sol.GetTermValues([]*Term{t})[0]
		sv := sext64(v, t.width)
		vals = append(vals, sv)
		if len(vals) > maxConcretize {
			e.sol.Pop(1)
			panic(unsupported(fmt.Sprintf("concretize(%s): more than %d feasible values", what, maxConcretize)))
		}
		e.sol.Assert(e.ts.Ne(t, e.ts.Const(t.width, v)))
	}
	e.sol.Pop(1)
	if len(vals) == 0 {
		panic(pathEnd{"infeasible at concretize"})
	}
	sort.Slice(vals, func(a, b int) bool { return vals[a] < vals[b] })
	for k := len(vals) - 1; k >= 1; k-- {
		alt := append(append([]int64(nil), e.prefix[:i]...), vals[k])
		e.alts = append(e.alts, alt)
	}
	e.prefix = append(e.prefix, vals[0])
	e.assertPC(e.ts.Eq(t, e.ts.Const(t.width, uint64(vals[0]))))
	return vals[0]
}

func (e *Exec) assume(c *Term) {
	if c.IsConst() {
		if c.val == 0 {
			panic(pathEnd{"assume"})
		}
		return
	}
	if v, ok := e.lookupKnown(c); ok {
		if !v {
			panic(pathEnd{"assume"})
		}
		return
	}
	i := e.ndec
	e.ndec++
	if i < len(e.prefix) {
		e.assertPC(c)
		return
	}
	e.newDecisions++
	if e.checkWith(c) == Unsat {
		panic(pathEnd{"assume"})
	}
	e.prefix = append(e.prefix, 1)
	e.assertPC(c)
}

func (e *Exec) vector(model []uint64) map[string]int64 {
	m := map[string]int64{}
	k := 0
	for _, ve := range e.vec {
		if ve.T == nil {
			m[ve.Name] = ve.Val
		} else {
			m[ve.Name] = sext64(model[k], ve.T.width)
			k++
		}
	}
	return m
}

func (e *Exec) vecTerms() []*Term {
	var ts []*Term
	for _, ve := range e.vec {
		if ve.T != nil {
			ts = append(ts, ve.T)
		}
	}
	return ts
}

// assertProp: the property obligation. pc ∧ ¬c must be unsat.
func (e *Exec) assertProp(c *Term, label, pos string) {
	st := e.cur.asserts[label]
	if st == nil {
		st = &AssertStat{}
		e.cur.asserts[label] = st
	}
	if c.IsTrue() {
		st.Trivial++
		return
	}
	if v, ok := e.lookupKnown(c); ok && v {
		st.Trivial++
		return
	}
	i := e.ndec
	e.ndec++
	if i < len(e.prefix) {
		if e.prefix[i] == 0 { // violated earlier on this prefix, continued under c
			if c.IsFalse() {
				panic(pathEnd{"assert-false"})
			}
			e.assertPC(c)
		} else {
			e.setKnown(c, true)
		}
		return
	}
	e.newDecisions++
	if traceDecisions {
		fmt.Fprintf(os.Stderr, "ASSERT #%d at %s: %s [%s]\n", i, e.where(), c.String(), label)
	}
	st.Checked++
	nc := e.ts.Not(c)
	e.sol.Push()
	e.sol.Prepare(e.vecTerms())
	e.sol.Assert(nc)
	r := e.sol.Check()
	if r == Unknown {
		e.sol.Pop(1)
		msg := "solver unknown/timeout on assertion " + label
		if e.sol.SawError != "" {
			msg = "solver error: " + e.sol.SawError
			e.sol.SawError = ""
		}
		e.inconcl[msg] = true
		e.prefix = append(e.prefix, 1)
		return
	}
	if r == Unsat {
		e.sol.Pop(1)
		st.Held++
		e.prefix = append(e.prefix, 1)
		e.setKnown(c, true)
		return
	}
	model := e.sol.GetTermValues(e.vecTerms())
	e.sol.Pop(1)
	st.Violated++
	e.prefix = append(e.prefix, 0)
	v := Violation{Label: label, Kind: "assert", Pos: pos, Vector: e.vector(model),
		Prefix: append([]int64(nil), e.prefix...)}
	e.cur.violations = append(e.cur.violations, v)
	if c.IsFalse() {
		panic(pathEnd{"assert-false"})
	}
	if e.checkWith(c) == Unsat {
		panic(pathEnd{"assert-always-false"})
	}
	e.assertPC(c)
}

// softViolation records a violation found by an engine-side monitor (pool double release,
// use after release) and lets the path continue, so that harness-level assertions that
// expose the same defect natively are still reached. Deduplicated per path and label.
func (e *Exec) softViolation(label, pos string) {
	for _, v := range e.cur.violations {
		if v.Label == label {
			return
		}
	}
	var model []uint64
	e.sol.Prepare(e.vecTerms())
	if e.sol.Check() == Sat {
		model = e.sol.GetTermValues(e.vecTerms())
	} else {
		model = make([]uint64, len(e.vecTerms()))
	}
	st := e.cur.asserts[label]
	if st == nil {
		st = &AssertStat{}
		e.cur.asserts[label] = st
	}
	st.Checked++
	st.Violated++
	e.cur.violations = append(e.cur.violations, Violation{Label: label, Kind: "monitor", Pos: pos,
		Vector: e.vector(model), Prefix: append([]int64(nil), e.prefix...)})
}

// runPath executes the harness once along the given prefix.
func (e *Exec) runPath(fn *ssa.Function, prefix []int64) (res *PathResult) {
	e.prefix = append([]int64(nil), prefix...)
	e.ndec = 0
	e.alts = nil
	e.known = map[*Term]bool{}
	e.vec = nil
	e.nondetCnt = map[string]int{}
	e.globals = map[*ssa.Global]*Value{}
	e.initDone = map[*ssa.Package]bool{}
	e.depth = 0
	e.steps = 0
	e.mapSeq = 0
	e.frozen = nil
	e.poolBags = map[*Value]*poolBag{}
	e.ghost = map[string]Value{}
	e.uniq = 0
	e.mapOrderMode = e.cfg.MapOrder
	e.cur = &PathResult{asserts: map[string]*AssertStat{}}
	e.entry = fn
	e.pooled = nil
	e.pureDepth, e.pureFork = 0, 0
	e.onceDone = nil
	e.par = nil
	e.panicking = nil
	e.domains = map[*Term][]uint64{}
	e.ts.ResetLearned()
	res = e.cur
	e.sol.Push()
	defer func() {
		if r := recover(); r != nil {
			switch x := r.(type) {
			case pathEnd:
				if strings.HasPrefix(x.why, "unwind") {
					res.status = "unwind"
				} else {
					res.status = "pruned"
					res.where = e.where()
				}
				res.why = x.why
			case targetPanic:
				res.status = "panic"
				res.why = x.msg + " @ " + x.pos
				// a feasible path (pc is sat by construction) reaches a Go panic
				var model []uint64
				e.sol.Prepare(e.vecTerms())
				if e.sol.Check() == Sat {
					model = e.sol.GetTermValues(e.vecTerms())
				} else {
					model = make([]uint64, len(e.vecTerms()))
				}
				res.violations = append(res.violations, Violation{Label: "panic: " + x.msg, Kind: "panic",
					Pos: x.pos, Vector: e.vector(model), Prefix: append([]int64(nil), e.prefix...)})
			case hangPanic:
				res.status = "hang"
				res.why = x.where
				var model []uint64
				e.sol.Prepare(e.vecTerms())
				if e.sol.Check() == Sat {
					model = e.sol.GetTermValues(e.vecTerms())
				} else {
					model = make([]uint64, len(e.vecTerms()))
				}
				res.violations = append(res.violations, Violation{Label: "loop exceeds its bound (no progress): " + x.where, Kind: "hang",
					Pos: x.where, Vector: e.vector(model), Prefix: append([]int64(nil), e.prefix...)})
			case unsupportedErr:
				res.status = "unsupported"
				res.why = x.msg
			default:
				e.sol.Pop(e.sol.level)
				panic(r)
			}
		}
		e.sol.Pop(e.sol.level)
	}()
	e.call(nil, 0, fn, nil)
	res.status = "completed"
	if e.wantWitness != nil && e.wantWitness() {
		e.sol.Prepare(e.vecTerms())
		if e.sol.Check() == Sat {
			model := e.sol.GetTermValues(e.vecTerms())
			res.witVec = e.vector(model)
			res.witObs = e.renderObserve(res.witVec)
		}
	}
	return res
}

// ---- driver ----

type runState struct {
	mu       sync.Mutex
	cond     *sync.Cond
	queue    [][]int64
	active   int
	stopped  bool
	res      *RunResult
	cfg      *Config
	deadline time.Time
	funcs    map[string]bool
}

func Explore(prog *ssa.Program, fn *ssa.Function, cfg *Config) *RunResult {
	start := time.Now()
	rs := &runState{cfg: cfg, funcs: map[string]bool{}}
	rs.cond = sync.NewCond(&rs.mu)
	rs.res = &RunResult{Harness: fn.Name(), Asserts: map[string]*AssertStat{}, Covers: map[string]int{},
		UnwindWhere: map[string]int{}, PanicWhere: map[string]int{}, KnownSeen: map[string]int{}}
	rs.queue = [][]int64{{}}
	if cfg.DeadlineSec > 0 {
		rs.deadline = start.Add(time.Duration(cfg.DeadlineSec) * time.Second)
	}
	var wg sync.WaitGroup
	inconcl := map[string]bool{}
	notes := map[string]bool{}
	var imu sync.Mutex
	for w := 0; w < cfg.Workers; w++ {
		wg.Add(1)
		go func(w int) {
			defer wg.Done()
			sol, err := NewSolver(cfg.Solver, cfg.TimeoutMs)
			if err != nil {
				imu.Lock()
				inconcl["cannot start solver: "+err.Error()] = true
				imu.Unlock()
				return
			}
			defer sol.Close()
			e := &Exec{prog: prog, ts: NewTermStore(), sol: sol, cfg: cfg,
				sharedGlobals: map[*ssa.Global]*Value{}, sharedInit: map[*ssa.Package]bool{},
				funcsSeen: map[*ssa.Function]bool{}, inconcl: map[string]bool{}, notes: map[string]bool{}}
			e.wantWitness = func() bool {
				rs.mu.Lock()
				defer rs.mu.Unlock()
				return len(rs.res.Witnesses) < rs.cfg.Validate
			}
			rs.worker(e, fn)
			imu.Lock()
			for k := range e.inconcl {
				inconcl[k] = true
			}
			for k := range e.notes {
				notes[k] = true
			}
			rs.res.Queries += sol.Queries
			rs.res.QSat += sol.NSat
			rs.res.QUnsat += sol.NUnsat
			rs.res.QUnknown += sol.NUnknown
			rs.res.SolverTimeS += sol.Time.Seconds()
			rs.res.Decisions += e.newDecisions
			for f := range e.funcsSeen {
				rs.funcs[f.String()] = true
			}
			imu.Unlock()
		}(w)
	}
	wg.Wait()
	for k := range inconcl {
		rs.res.Inconclusive = append(rs.res.Inconclusive, k)
	}
	for k := range notes {
		rs.res.Notes = append(rs.res.Notes, k)
	}
	sort.Strings(rs.res.Inconclusive)
	sort.Strings(rs.res.Notes)
	for f := range rs.funcs {
		rs.res.Functions = append(rs.res.Functions, f)
	}
	sort.Strings(rs.res.Functions)
	rs.res.WallS = time.Since(start).Seconds()
	return rs.res
}

func (rs *runState) worker(e *Exec, fn *ssa.Function) {
	for {
		rs.mu.Lock()
		for len(rs.queue) == 0 && rs.active > 0 && !rs.stopped {
			rs.cond.Wait()
		}
		if rs.stopped || len(rs.queue) == 0 {
			rs.mu.Unlock()
			rs.cond.Broadcast()
			return
		}
		job := rs.queue[len(rs.queue)-1]
		rs.queue = rs.queue[:len(rs.queue)-1]
		rs.active++
		rs.mu.Unlock()

		pr := e.runPath(fn, job)

		var sample *PathSample
		if pr.status == "completed" {
			sample = &PathSample{Prefix: append([]int64(nil), e.prefix...), Status: pr.status, Covers: pr.covers,
				Steps: e.steps, Vector: pr.witVec, Observe: pr.witObs}
		}
		wantWitness := sample != nil && sample.Vector != nil

		rs.mu.Lock()
		rs.active--
		r := rs.res
		r.Paths++
		r.Steps += e.steps
		switch pr.status {
		case "completed":
			r.Completed++
		case "pruned":
			r.Pruned++
			r.PanicWhere["pruned: "+pr.why+" @ "+pr.where]++
		case "panic":
			r.Panics++
			r.PanicWhere[pr.why]++
		case "hang":
			r.Panics++
			r.PanicWhere["hang: "+pr.why]++
		case "unwind":
			r.Unwinds++
			r.UnwindWhere[pr.why]++
		case "unsupported":
			e.inconcl["unsupported: "+pr.why] = true
		}
		for _, c := range pr.covers {
			r.Covers[c]++
		}
		for _, k := range pr.knownSeen {
			r.KnownSeen[k]++
		}
		for l, st := range pr.asserts {
			a := r.Asserts[l]
			if a == nil {
				a = &AssertStat{}
				r.Asserts[l] = a
			}
			a.Trivial += st.Trivial
			a.Checked += st.Checked
			a.Held += st.Held
			a.Violated += st.Violated
		}
		for _, v := range pr.violations {
			if len(r.Violations) < 50 {
				r.Violations = append(r.Violations, v)
			}
		}
		if sample != nil {
			if wantWitness && sample.Vector != nil && len(r.Witnesses) < rs.cfg.Validate {
				r.Witnesses = append(r.Witnesses, *sample)
			}
			if len(r.Samples) < 5 {
				r.Samples = append(r.Samples, *sample)
			}
		}
		rs.queue = append(rs.queue, e.alts...)
		if rs.cfg.MaxPaths > 0 && r.Paths >= rs.cfg.MaxPaths && (len(rs.queue) > 0 || rs.active > 0) {
			e.inconcl[fmt.Sprintf("path limit %d reached", rs.cfg.MaxPaths)] = true
			rs.stopped = true
		}
		if !rs.deadline.IsZero() && time.Now().After(rs.deadline) && (len(rs.queue) > 0 || rs.active > 0) {
			e.inconcl["deadline reached before exploration finished"] = true
			rs.stopped = true
		}
		if rs.cfg.Verbose && r.Paths%500 == 0 {
			fmt.Fprintf(os.Stderr, "[%s] paths=%d queue=%d viol=%d\n", r.Harness, r.Paths, len(rs.queue), len(r.Violations))
		}
		rs.mu.Unlock()
		rs.cond.Broadcast()
	}
}

