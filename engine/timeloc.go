package main

// time.LoadLocation in the engine: the host loads the real IANA zone (system zoneinfo, or the
// zoneinfo.zip of the pre-installed Go 1.26.8 as a fall-back) and its transition tables are
// copied field by field into a value of the analysed program's *time.Location, so that the
// real time.(*Location).lookup / Time.In / Time.Zone code runs over the real tables.

import (
	"fmt"
	"go/token"
	"go/types"
	"os"
	"reflect"
	"time"

	"golang.org/x/tools/go/ssa"
)

func init() {
	externals["time.LoadLocation"] = extLoadLocation
}

func hostLoadLocation(name string) (*time.Location, error) {
	loc, err := time.LoadLocation(name)
	if err == nil {
		return loc, nil
	}
	for _, zip := range []string{"/opt/veriftools/go1.26.8/lib/time/zoneinfo.zip"} {
		if _, e := os.Stat(zip); e == nil {
			os.Setenv("ZONEINFO", zip)
			if loc, err2 := time.LoadLocation(name); err2 == nil {
				return loc, nil
			}
		}
	}
	return nil, err
}

func extLoadLocation(e *Exec, fr *frame, pos token.Pos, fn *ssa.Function, args []Value) Value {
	name := e.concStr(args[0], "time.LoadLocation name")
	locT := fn.Signature.Results().At(0).Type() // *time.Location
	if name == "" || name == "UTC" {
		// the real function returns the package's UTC singleton
		if g, ok := fn.Pkg.Members["UTC"].(*ssa.Global); ok {
			return TupleV{copyVal(*e.globalCell(g)), IfaceV{}}
		}
	}
	loc, err := hostLoadLocation(name)
	if err != nil {
		return TupleV{PtrV{}, e.mkError("unknown time zone " + name)}
	}
	cell := new(Value)
	*cell = e.hostToValue(reflect.ValueOf(loc).Elem(), locT.(*types.Pointer).Elem())
	e.note("time.LoadLocation(" + name + "): real IANA transition table copied from the host")
	return TupleV{mkPtr(cell), IfaceV{}}
}

// hostToValue converts a host value (read through reflection, unexported fields included)
// into the engine's representation of the analysed program's type t.
func (e *Exec) hostToValue(rv reflect.Value, t types.Type) Value {
	switch u := t.Underlying().(type) {
	case *types.Basic:
		if w, _, ok := intWidth(t); ok {
			switch rv.Kind() {
			case reflect.Bool:
				return e.ts.Bool(rv.Bool())
			case reflect.Int, reflect.Int8, reflect.Int16, reflect.Int32, reflect.Int64:
				return e.ts.Const(w, uint64(rv.Int()))
			default:
				return e.ts.Const(w, rv.Uint())
			}
		}
		if isString(t) {
			return e.strConst(rv.String())
		}
	case *types.Struct:
		s := make(StructV, u.NumFields())
		for i := range s {
			f := rv.FieldByName(u.Field(i).Name())
			if !f.IsValid() {
				panic(unsupported("hostToValue: host struct lacks field " + u.Field(i).Name()))
			}
			s[i] = e.hostToValue(f, u.Field(i).Type())
		}
		return s
	case *types.Slice:
		if rv.IsNil() {
			return SliceV{}
		}
		d := make([]Value, rv.Len())
		for i := range d {
			d[i] = e.hostToValue(rv.Index(i), u.Elem())
		}
		return SliceV{data: d}
	case *types.Pointer:
		if rv.IsNil() {
			return PtrV{}
		}
		c := new(Value)
		*c = e.hostToValue(rv.Elem(), u.Elem())
		return mkPtr(c)
	}
	panic(unsupported(fmt.Sprintf("hostToValue: %s", t)))
}
