package idr

import (
	"github.com/jf-tech/go-corelib/caches"

	zz "github.com/jf-tech/omniparser/zzverif"
)

func zzAnd(a, b bool) bool { return !zz.Implies(a, !b) }

// C12ParIDs: acquisitions racing on T goroutines. Each thread creates K nodes, builds a small
// tree from them and releases it again before creating the next round, so nodes travel through
// the shared pool from one thread to another while both threads draw IDs from the shared
// counter. For every interleaving of the synchronisation operations (pool Get/Put, atomic
// counter) within the preemption bound: no data race, every acquisition carries an ID distinct
// from every other acquisition in the process (also from the IDs handed out before the threads
// started), a node is never handed to two owners, and every acquired node is blank.
func C12ParIDs() {
	T := zz.Param("T", 2)
	K := zz.Param("K", 2)
	zz.PoolMode(zz.Param("POOL", 2))
	iters := zz.Stress(3000)
	start := int64(zz.NondetInt("counter", 0, 1<<40))
	resetNodePool() // no nodes (with IDs of their own) left over from earlier native vectors
	nodeID = start
	for it := 0; it < iters; it++ {
		// pool pre-populated by a released tree, as after any earlier record
		pre := CreateNode(ElementNode, "r")
		AddChild(pre, CreateNode(TextNode, "t"))
		preID := pre.ID
		RemoveAndReleaseTree(pre)

		ids := make([][]int64, T)
		blank := make([]bool, T)
		held := make([][]*Node, T)
		fns := make([]func(), T)
		for t := 0; t < T; t++ {
			t := t
			blank[t] = true
			fns[t] = func() {
				for k := 0; k < K; k++ {
					a := CreateNode(ElementNode, "a")
					ok := a.Parent == nil && a.FirstChild == nil && a.LastChild == nil && a.PrevSibling == nil &&
						a.NextSibling == nil && a.FormatSpecific == nil
					ids[t] = append(ids[t], a.ID)
					b := CreateNode(TextNode, "b")
					ok = ok && b.Parent == nil && b.FirstChild == nil && b.NextSibling == nil && b.FormatSpecific == nil && a != b
					ids[t] = append(ids[t], b.ID)
					blank[t] = blank[t] && ok
					AddChild(a, b)
					if k < K-1 {
						RemoveAndReleaseTree(a)
					} else {
						held[t] = append(held[t], a, b)
					}
				}
			}
		}
		zz.Par(fns...)
		zz.Cover("joined")
		var all []int64
		var owned []*Node
		for t := 0; t < T; t++ {
			zz.Assert(blank[t], "every acquired node is blank")
			all = append(all, ids[t]...)
			owned = append(owned, held[t]...)
		}
		distinct := true
		for i := range all {
			distinct = zzAnd(distinct, all[i] != preID)
			for j := i + 1; j < len(all); j++ {
				distinct = zzAnd(distinct, all[i] != all[j])
			}
		}
		zz.Assert(distinct, "every acquisition carries an ID distinct from every other acquisition, earlier ones included")
		for i := range owned {
			for j := i + 1; j < len(owned); j++ {
				zz.Assert(owned[i] != owned[j], "a node is never handed to two owners")
			}
		}
		for t := 0; t < T; t++ {
			zz.Assert(held[t][0].FirstChild == held[t][1] && held[t][1].Parent == held[t][0], "each thread's tree is intact")
		}
	}
}

// C14ParQuery: two goroutines evaluate the same cached compiled xpath (process-wide cache keyed
// by the expression text) on their own trees through MatchAny / MatchAll / MatchSingle, as the
// format readers do with the target xpath: no data race on the shared compiled expression
// (it must be cloned per query) and each thread's answers equal the serial answers.
func C14ParQuery() {
	exprs := []string{"x='1'", ".[x='1']", "x", "count(x)>1"}
	expr := exprs[zz.NondetChoice("expr", len(exprs))]
	mk := func(tag string) *Node {
		t := CreateNode(ElementNode, "T")
		n := 1 + zz.NondetChoice(tag+".n", 2)
		for i := 0; i < n; i++ {
			x := CreateNode(ElementNode, "x")
			AddChild(t, x)
			v := zz.NondetBytesN(tag+".v", 1)
			zz.Assume(zz.ByteIn(v[0], "12"))
			AddChild(x, CreateNode(TextNode, string(v)))
		}
		return t
	}
	ta, tb := mk("a"), mk("b")
	for it, n := 0, zz.Stress(300); it < n; it++ {
		var ma, mb bool
		var ca, cb int
		zz.Par(func() {
			e, err := caches.GetXPathExpr(expr)
			if err == nil {
				ma = MatchAny(ta, e)
			}
			ns, _ := MatchAll(ta, "x")
			ca = len(ns)
		}, func() {
			e, err := caches.GetXPathExpr(expr)
			if err == nil {
				mb = MatchAny(tb, e)
			}
			ns, _ := MatchAll(tb, "x")
			cb = len(ns)
		})
		e, err := caches.GetXPathExpr(expr)
		zz.Assume(err == nil)
		zz.Assert(ma == MatchAny(ta, e) && mb == MatchAny(tb, e), "each goroutine's answer equals the serial answer")
		na, _ := MatchAll(ta, "x")
		nb, _ := MatchAll(tb, "x")
		zz.Assert(ca == len(na) && cb == len(nb), "each goroutine's selection equals the serial selection")
	}
	zz.Cover("joined")
}

// C14ParXml: two goroutines each stream their own XML document carrying namespace declarations
// (the same URI under different prefixes) through their own XMLStreamReader: nothing a reader
// writes while parsing is shared with the other reader, and each delivers what it delivers alone.
func C14ParXml() {
	docA := []byte(`<R xmlns:p="u:p"><p:T>1</p:T></R>`)
	docB := []byte(`<R xmlns:q="u:p"><q:T>2</q:T></R>`)
	run := func(doc []byte) string {
		sp, err := NewXMLStreamReader(&zzChunkReader{data: doc, failAt: -1}, "/R/*")
		if err != nil {
			return "new:" + err.Error()
		}
		n, err := sp.Read()
		if err != nil {
			return "read:" + err.Error()
		}
		return zzSer(n)
	}
	wantA, wantB := run(append([]byte{}, docA...)), run(append([]byte{}, docB...))
	for it, n := 0, zz.Stress(300); it < n; it++ {
		var ga, gb string
		zz.Par(func() {
			ga = run(append([]byte{}, docA...))
		}, func() {
			gb = run(append([]byte{}, docB...))
		})
		zz.Assert(ga == wantA && gb == wantB, "each goroutine's record equals the one it delivers when run alone")
	}
	zz.Cover("joined")
}
