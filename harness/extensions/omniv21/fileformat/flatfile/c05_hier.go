package flatfile

import (
	"io"

	"github.com/antchfx/xpath"
	"github.com/jf-tech/go-corelib/caches"

	"github.com/jf-tech/omniparser/idr"
	zz "github.com/jf-tech/omniparser/zzverif"
)

// ---- C05: HierarchyReader is the documented greedy, non-backtracking matcher ----

const zzUnbounded = 1 << 30

type zzDecl struct {
	name   string
	target bool
	group  bool
	min    int
	max    int
	kids   []RecDecl
}

func (d *zzDecl) DeclName() string      { return d.name }
func (d *zzDecl) Target() bool          { return d.target }
func (d *zzDecl) Group() bool           { return d.group }
func (d *zzDecl) MinOccurs() int        { return d.min }
func (d *zzDecl) MaxOccurs() int        { return d.max }
func (d *zzDecl) ChildDecls() []RecDecl { return d.kids }

// zzRecReader honours the documented RecReader contract over a symbolic unit sequence:
// a unit is consumed only by a successful ReadAndMatch with createIDR, peeked otherwise.
type zzRecReader struct {
	units    []byte
	pos      int
	consumed []int // how often each unit was consumed (ghost)
	failAt   int   // MoreUnprocessedData fails when pos == failAt (-1: never)
	ioErr    error
}

func (r *zzRecReader) MoreUnprocessedData() (bool, error) {
	if r.failAt >= 0 && r.pos == r.failAt {
		return false, r.ioErr
	}
	return r.pos < len(r.units), nil
}

var zzDigits = []string{"0", "1", "2", "3", "4", "5", "6", "7", "8", "9", "10", "11", "12", "13", "14", "15", "16", "17", "18", "19",
	"20", "21", "22", "23", "24", "25", "26", "27", "28", "29", "30", "31"}

func (r *zzRecReader) ReadAndMatch(decl RecDecl, createIDR bool) (bool, *idr.Node, error) {
	zz.Assert(r.pos < len(r.units), "RecReader contract: ReadAndMatch only called when data is available")
	zz.Assert(!decl.Group(), "RecReader contract: ReadAndMatch only called with a non-group decl")
	if r.units[r.pos] != decl.DeclName()[0] {
		return false, nil, nil
	}
	if !createIDR {
		return true, nil, nil
	}
	n := idr.CreateNode(idr.ElementNode, decl.DeclName())
	idr.AddChild(n, idr.CreateNode(idr.TextNode, zzDigits[r.pos]))
	r.consumed[r.pos]++
	r.pos++
	return true, n, nil
}

func zzMinMax(d *zzDecl, tag string) {
	d.min = zz.NondetInt(tag+".min", 0, 2)
	m := zz.NondetInt(tag+".max", 1, 4)
	d.max = zz.IteInt(m == 4, zzUnbounded, m)
	zz.Assume(d.min <= d.max) // what every format's validation enforces
}

func zzRec(name string, kids ...RecDecl) *zzDecl {
	d := &zzDecl{name: name, kids: kids}
	zzMinMax(d, name)
	return d
}

func zzGrp(name string, kids ...RecDecl) *zzDecl {
	d := &zzDecl{name: name, group: true, kids: kids}
	zzMinMax(d, name)
	return d
}

// zzShape builds one of the hierarchies (≤ 4 declarations, depth ≤ 3); returns the
// top-level list and all declarations in pre-order.
func zzShape(k int) ([]RecDecl, []*zzDecl) {
	switch k {
	case 0: // a
		a := zzRec("a")
		return []RecDecl{a}, []*zzDecl{a}
	case 1: // a b
		a, b := zzRec("a"), zzRec("b")
		return []RecDecl{a, b}, []*zzDecl{a, b}
	case 2: // a{b}
		b := zzRec("b")
		a := zzRec("a", b)
		return []RecDecl{a}, []*zzDecl{a, b}
	case 3: // G{a b}
		a, b := zzRec("a"), zzRec("b")
		g := zzGrp("G", a, b)
		return []RecDecl{g}, []*zzDecl{g, a, b}
	case 4: // G{a b} c
		a, b, c := zzRec("a"), zzRec("b"), zzRec("c")
		g := zzGrp("G", a, b)
		return []RecDecl{g, c}, []*zzDecl{g, a, b, c}
	case 5: // G{H{a} b}  -- group whose first member is itself a group
		a, b := zzRec("a"), zzRec("b")
		h := zzGrp("H", a)
		g := zzGrp("G", h, b)
		return []RecDecl{g}, []*zzDecl{g, h, a, b}
	case 6: // a{b{c}}
		c := zzRec("c")
		b := zzRec("b", c)
		a := zzRec("a", b)
		return []RecDecl{a}, []*zzDecl{a, b, c}
	case 7: // a G{b c}
		a, b, c := zzRec("a"), zzRec("b"), zzRec("c")
		g := zzGrp("G", b, c)
		return []RecDecl{a, g}, []*zzDecl{a, g, b, c}
	case 8: // a{b c} d
		b, c, d := zzRec("b"), zzRec("c"), zzRec("d")
		a := zzRec("a", b, c)
		return []RecDecl{a, d}, []*zzDecl{a, b, c, d}
	default: // a b c
		a, b, c := zzRec("a"), zzRec("b"), zzRec("c")
		return []RecDecl{a, b, c}, []*zzDecl{a, b, c}
	}
}

const zzNumShapes = 10

// ---- reference: the documented greedy matcher (DESIGN.md appendix A.2) ----

type zzSpecOut struct {
	targets [][]int // unit indices of each delivered target, in order
	term    string  // "eof" | "min:<name>" | "unexpected"
}

func zzFirstSolid(d *zzDecl) *zzDecl {
	for d.group && len(d.kids) > 0 {
		d = d.kids[0].(*zzDecl)
	}
	if d.group {
		return nil
	}
	return d
}

type zzSpec struct {
	units []byte
	pos   int
	out   zzSpecOut
	cur   []int
	inTgt bool
}

func (s *zzSpec) list(decls []RecDecl) string {
	for _, rd := range decls {
		d := rd.(*zzDecl)
		cnt := 0
		for cnt < d.max {
			fs := zzFirstSolid(d)
			if fs == nil || s.pos >= len(s.units) || s.units[s.pos] != fs.name[0] {
				break
			}
			if d.target {
				s.cur = nil
				s.inTgt = true
			}
			if !d.group {
				if s.inTgt {
					s.cur = append(s.cur, s.pos)
				}
				s.pos++
			}
			e := s.list(d.kids)
			if e != "" {
				return e
			}
			if d.target {
				s.out.targets = append(s.out.targets, s.cur)
				s.inTgt = false
			}
			cnt++
		}
		if cnt < d.min {
			return "min:" + d.name
		}
	}
	return ""
}

func zzSpecGreedy(top []RecDecl, units []byte) zzSpecOut {
	s := &zzSpec{units: units}
	e := s.list(top)
	switch {
	case e != "":
		s.out.term = e
	case s.pos < len(units):
		s.out.term = "unexpected"
	default:
		s.out.term = "eof"
	}
	return s.out
}

// zzLeaves collects the unit indices stored in the text nodes of a delivered tree, pre-order.
func zzLeaves(n *idr.Node, acc []int) []int {
	if n.Type == idr.TextNode {
		return append(acc, int(n.Data[0]-'0'))
	}
	for c := n.FirstChild; c != nil; c = c.NextSibling {
		zz.Assert(c.Parent == n, "delivered tree: child's parent link")
		if c.NextSibling != nil {
			zz.Assert(c.NextSibling.PrevSibling == c, "delivered tree: sibling links")
		} else {
			zz.Assert(n.LastChild == c, "delivered tree: last child link")
		}
		acc = zzLeaves(c, acc)
	}
	return acc
}

func zzCountNodes(n *idr.Node) int {
	k := 1
	for c := n.FirstChild; c != nil; c = c.NextSibling {
		k += zzCountNodes(c)
	}
	return k
}

// C05Hier: every hierarchy shape × symbolic min/max × every unit sequence up to L.
func C05Hier() { zzC05Hier(false) }

// C05HierFilter: the same with a target xpath that rejects every target instance containing one
// chosen unit (by position): rejected instances are consumed and counted towards max like any
// other, they are just not delivered; terminal results are those of the unfiltered reference.
func C05HierFilter() { zzC05Hier(true) }

func zzC05Hier(filtered bool) {
	L := zz.Param("L", 4)
	shape := zz.NondetChoice("shape", zzNumShapes)
	if s := zz.Param("shape", -1); s >= 0 {
		zz.Assume(shape == s)
	}
	top, all := zzShape(shape)
	tgt := zz.NondetChoice("target", len(all))
	all[tgt].target = true
	n := zz.NondetInt("len", 0, L)
	units := make([]byte, 0, L)
	for i := 0; i < L; i++ {
		if i < n {
			u := zz.NondetByte("unit")
			// declared names plus one undeclared unit name
			zz.Assume(zz.ByteIn(u, "abcdz"))
			units = append(units, u)
		}
	}
	rr := &zzRecReader{units: units, consumed: make([]int, len(units)), failAt: -1}
	var filter *xpath.Expr
	rej := -1
	if filtered {
		// node texts are the unit positions
		rej = zz.NondetChoice("rejectUnit", 4)
		filter, _ = caches.GetXPathExpr([]string{".[not(.//text()='0')]", ".[not(.//text()='1')]", ".[not(.//text()='2')]", ".[not(.//text()='3')]"}[rej])
	}
	r := NewHierarchyReader(top, rr, filter)
	root := r.stack[0].recNode
	spec := zzSpecGreedy(top, units)
	if filtered {
		var kept [][]int
		for _, t := range spec.targets {
			has := false
			for _, u := range t {
				if u == rej {
					has = true
				}
			}
			if !has {
				kept = append(kept, t)
			} else {
				zz.Cover("rejected")
			}
		}
		spec.targets = kept
	}

	delivered := 0
	var lastTarget *idr.Node
	callRelease := zz.NondetBool("callRelease")
	for i := 0; i < L+2; i++ {
		if lastTarget != nil && callRelease {
			r.Release(lastTarget)
		}
		node, err := r.Read()
		if err != nil {
			zz.Assert(node == nil, "error comes with a nil node")
			zz.Assert(delivered == len(spec.targets), "all targets of the reference were delivered before the terminal result")
			switch {
			case err == io.EOF:
				zz.Cover("eof")
				zz.Assert(spec.term == "eof", "EOF only where the reference ends cleanly")
				zz.Assert(rr.pos == len(units), "EOF only when every input unit has been consumed")
			case IsErrFewerThanMinOccurs(err):
				zz.Cover("fatal-min")
				e := err.(ErrFewerThanMinOccurs)
				zz.Assert(spec.term == "min:"+e.RecDecl.DeclName(), "min-occurs failure on the declaration the reference names")
			case IsErrUnexpectedData(err):
				zz.Cover("fatal-unexpected")
				zz.Assert(spec.term == "unexpected", "unexpected-data exactly where the reference has leftover units")
			default:
				zz.Fail("unknown error class from HierarchyReader.Read")
			}
			for k := range rr.consumed {
				zz.Assert(rr.consumed[k] <= 1, "no unit consumed twice")
			}
			// after the terminal result the tree holds no delivered target any more
			return
		}
		zz.Cover("delivered")
		zz.Assert(node != nil, "nil error comes with a node")
		zz.Assert(delivered < len(spec.targets), "no more targets than the reference delivers")
		got := zzLeaves(node, nil)
		want := spec.targets[delivered]
		zz.Assert(len(got) == len(want), "target holds exactly the units of the reference instance (count)")
		for k := range got {
			zz.Assert(got[k] == want[k], "target holds exactly the units of the reference instance (order)")
		}
		zz.Assert(node.Data == all[tgt].name, "delivered node is an instance of the target declaration")
		zz.Assert(node.Parent != nil, "delivered target is attached to the tree")
		delivered++
		lastTarget = node
		_ = root
	}
	zz.Fail("no terminal result within L+2 reads")
}

// C17Hier: the shared flat-file HierarchyReader does not retain records: a periodic input of N
// blocks "a b", the target being a leaf record, a record with a child record, or a group, with
// a target xpath that lets every block, only some, or none pass. After each delivered and
// released record the tree under the reader's root is no larger than after the first.
func C17Hier() {
	N := zz.Param("N", 3)
	var top []RecDecl
	b := &zzDecl{name: "b", min: 1, max: 1}
	switch zz.NondetChoice("targetKind", 3) {
	case 0: // leaf target a followed by a non-target b, both directly under the (fixed) root
		// (a repeating non-target group around the target would be a new ancestor per block,
		// which is outside the property: "under a fixed set of ancestors")
		top = []RecDecl{&zzDecl{name: "a", min: 0, max: zzUnbounded, target: true, kids: []RecDecl{}}}
		b = nil
	case 1: // target record with a child record
		top = []RecDecl{&zzDecl{name: "a", min: 0, max: zzUnbounded, target: true, kids: []RecDecl{b}}}
	default: // target group
		top = []RecDecl{&zzDecl{name: "G", group: true, target: true, min: 0, max: zzUnbounded, kids: []RecDecl{
			&zzDecl{name: "a", min: 1, max: 1}, b}}}
	}
	var units []byte
	for i := 0; i < N; i++ {
		units = append(units, 'a')
		if b != nil {
			units = append(units, 'b')
		} else {
			units = append(units, 'a') // keep the positions (texts) aligned with the filters: two units per block
		}
	}
	// node texts are the unit positions: a = 0,2,4,…  b = 1,3,5,…
	var filter *xpath.Expr
	switch zz.NondetChoice("filter", 4) {
	case 1:
		filter, _ = caches.GetXPathExpr(".[.//text()='0' or .//text()='1' or .//text()='4' or .//text()='5']") // blocks 1 and 3
	case 2:
		filter, _ = caches.GetXPathExpr(".[.//text()='2' or .//text()='3']") // block 2 only
	case 3:
		filter, _ = caches.GetXPathExpr(".[.//text()='4' or .//text()='5']") // last block only
	}
	rr := &zzRecReader{units: units, consumed: make([]int, len(units)), failAt: -1}
	r := NewHierarchyReader(top, rr, filter)
	root := r.stack[0].recNode
	first := -1
	for i := 0; i < 2*N+1; i++ {
		n, err := r.Read()
		if err != nil {
			zz.Cover("terminal")
			zz.Assert(err == io.EOF, "the periodic input ends with EOF")
			return
		}
		zz.Cover("record")
		r.Release(n)
		size := zzTreeSize(root)
		if first < 0 {
			first = size
		}
		zz.Assert(size <= first, "retained tree does not grow with the number of records read")
	}
	zz.Fail("no terminal result within the read bound")
}

func zzTreeSize(n *idr.Node) int {
	k := 1
	for c := n.FirstChild; c != nil; c = c.NextSibling {
		k += zzTreeSize(c)
	}
	return k
}

// C05HierDeep: nesting deeper than the reader's pre-allocated stack (10 frames): a chain of D
// declarations, each the only child of the previous one, and one unit per level. The target
// (the outermost or the innermost record) is delivered with the whole chain below it attached,
// then EOF.
func C05HierDeep() {
	D := zz.Param("D", 12)
	names := "abcdefghijklmnopqrstuvwxyz"
	innermost := zz.NondetBool("targetInnermost")
	var decl *zzDecl
	for i := D - 1; i >= 0; i-- {
		d := &zzDecl{name: names[i : i+1], min: 1, max: 1}
		if decl != nil {
			d.kids = []RecDecl{decl}
		}
		if (innermost && i == D-1) || (!innermost && i == 0) {
			d.target = true
		}
		decl = d
	}
	units := []byte(names[:D])
	rr := &zzRecReader{units: units, consumed: make([]int, len(units)), failAt: -1}
	r := NewHierarchyReader([]RecDecl{decl}, rr, nil)
	n, err := r.Read()
	zz.Assert(err == nil && n != nil, "the target is delivered")
	if n != nil {
		if innermost {
			zz.Assert(n.Data == names[D-1:D], "the innermost record")
			depth := 0
			for p := n; p.Parent != nil; p = p.Parent {
				depth++
			}
			zz.Assert(depth == D, "attached under the whole chain of its ancestors")
		} else {
			zz.Assert(n.Data == "a", "the outermost record")
			depth, p := 1, n
			for {
				var next *idr.Node
				for c := p.FirstChild; c != nil; c = c.NextSibling {
					if c.Type == idr.ElementNode {
						next = c
					}
				}
				if next == nil {
					break
				}
				p = next
				depth++
			}
			zz.Assert(depth == D, "with the whole chain of its descendants")
		}
		r.Release(n)
	}
	_, err = r.Read()
	zz.Assert(err == io.EOF, "then EOF")
	zz.Cover("deep")
}
