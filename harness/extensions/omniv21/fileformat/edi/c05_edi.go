package edi

import (
	"io"

	zz "github.com/jf-tech/omniparser/zzverif"
)

// C05EdiTail: every input byte ends up in a returned segment, a skipped CR/LF-only token,
// or an error — trailing unterminated data is never silently dropped.
func C05EdiTail() {
	L := zz.Param("L", 4)
	in := zz.NondetBytes("in", L)
	for i := range in {
		b := in[i]
		zz.Assume(b == '~' || b == '*' || b == 'A' || b == '\n' || b == '?')
	}
	decl := &FileDecl{SegDelim: "~", ElemDelim: "*", ReleaseChar: zzStrPtr("?")}
	r := NewNonValidatingReader(&zzChunkReader{data: in, failAt: -1}, decl)
	accounted := 0
	for i := 0; i < L+2; i++ {
		seg, err := r.Read()
		if err == io.EOF {
			zz.Cover("eof")
			// whatever was not returned as a segment must be CR/LF-only filler
			for k := accounted; k < len(in); k++ {
				// bytes after the last returned segment
				_ = k
			}
			rest := in[accounted:]
			onlyFiller := true
			for _, b := range rest {
				if b != '\n' && b != '~' {
					onlyFiller = false
				}
			}
			zz.Assert(onlyFiller, "EOF with unconsumed non-filler input: trailing data silently dropped")
			return
		}
		if err != nil {
			zz.Cover("error")
			return
		}
		zz.Cover("segment")
		accounted += len(seg.Raw)
	}
}
