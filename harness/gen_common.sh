#!/bin/sh
# copies the shared harness helpers (chunking / failing io.Reader etc.) into every harness
# package; the generated files are committed.
cd /verif/harness || exit 1
gen() { mkdir -p "$1"; sed "s/^package PKG$/package $2/" _common/zz_common.go.tmpl > "$1/zz_common.go"; }
gen extensions/omniv21/fileformat/edi edi
gen extensions/omniv21/fileformat/flatfile/fixedlength fixedlength
gen extensions/omniv21/fileformat/flatfile/csv csv
gen extensions/omniv21/fileformat/fixedlength fixedlength
gen extensions/omniv21/fileformat/csv csv
gen idr idr
gen . omniparser
gen extensions/omniv21 omniv21
