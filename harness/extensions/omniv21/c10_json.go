package omniv21

import "encoding/json"

func jsonMarshalForHarness(v interface{}) ([]byte, error) { return json.Marshal(v) }
