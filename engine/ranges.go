package main

// Unsigned interval analysis on terms, used for sound rewrites at construction time:
//   - udiv/urem (sdiv/srem on non-negative operands) by a constant when the numerator's range
//     pins the quotient, or is narrow enough to divide at a small width
//     ((q0*c + y) / c = q0 + y/c for 0 <= y small);
//   - comparisons decided by disjoint ranges.
// 64-bit division by constants is what bit-blasting back ends do not finish; with a day or an
// hour pinned by the harness the divisions of the time package fold or shrink to ~20 bits.
//
// A variable's range is the one its NondetInt call assumed on the current path (the
// assumption is in the path condition before the variable is used); ranges are re-derived
// whenever a variable of the same name gets a different range on another path (epoch).

import "math/bits"

type rng struct{ lo, hi uint64 }

func (s *TermStore) SetVarRange(v *Term, lo, hi uint64) {
	if s.varRange == nil {
		s.varRange = map[*Term]rng{}
	}
	if old, ok := s.varRange[v]; ok && old.lo == lo && old.hi == hi {
		return
	}
	s.varRange[v] = rng{lo, hi}
	s.rangeEpoch++
}

func (s *TermStore) ClearVarRange(v *Term) {
	if _, ok := s.varRange[v]; ok {
		delete(s.varRange, v)
		s.rangeEpoch++
	}
}

// LearnRange intersects the interval of an arbitrary term with [lo,hi]: a fact that the
// current path condition implies (learned from a decided comparison with a constant). Facts are
// per path: ResetLearned is called when a path starts.
func (s *TermStore) LearnRange(t *Term, lo, hi uint64) {
	if t.IsConst() || lo > hi {
		return
	}
	if s.learned == nil {
		s.learned = map[*Term]rng{}
	}
	cur, ok := s.learned[t]
	if !ok {
		cur = rng{0, mask(t.width)}
	}
	if lo > cur.lo {
		cur.lo = lo
	}
	if hi < cur.hi {
		cur.hi = hi
	}
	if cur.lo > cur.hi {
		return // contradictory with an earlier fact: the path is infeasible anyway
	}
	if old, had := s.learned[t]; had && old == cur {
		return
	}
	s.learned[t] = cur
	s.rangeEpoch++
	if s.varRange == nil {
		s.varRange = map[*Term]rng{} // switches the range-based rewrites on
	}
}

func (s *TermStore) ResetLearned() {
	if len(s.learned) > 0 {
		s.learned = nil
		s.rangeEpoch++
	}
}

// LearnFromCond records what a decided comparison against a constant says about the other
// side, when that is a contiguous interval of unsigned values.
func (s *TermStore) LearnFromCond(c *Term, val bool) {
	for c.op == OpNot {
		c, val = c.args[0], !val
	}
	switch c.op {
	case OpAnd:
		if val {
			s.LearnFromCond(c.args[0], true)
			s.LearnFromCond(c.args[1], true)
		}
		return
	case OpOr:
		if !val {
			s.LearnFromCond(c.args[0], false)
			s.LearnFromCond(c.args[1], false)
		}
		return
	case OpEq:
		a, b := c.args[0], c.args[1]
		if a.width == 0 {
			return
		}
		if a.IsConst() {
			a, b = b, a
		}
		if b.IsConst() && val {
			s.LearnRange(a, b.val, b.val)
		}
		return
	case OpULt, OpULe, OpSLt, OpSLe:
	default:
		return
	}
	a, b := c.args[0], c.args[1]
	w := a.width
	if w == 0 || (!a.IsConst() && !b.IsConst()) || (a.IsConst() && b.IsConst()) {
		return
	}
	m := mask(w)
	half := uint64(1) << uint(w-1)
	signed := c.op == OpSLt || c.op == OpSLe
	strict := c.op == OpULt || c.op == OpSLt
	// normalise to: t REL k, REL one of < <= > >=
	var t *Term
	var k uint64
	var rel string
	if b.IsConst() {
		t, k = a, b.val
		switch {
		case val && strict:
			rel = "<"
		case val && !strict:
			rel = "<="
		case !val && strict:
			rel = ">="
		default:
			rel = ">"
		}
	} else {
		t, k = b, a.val
		switch { // k REL t
		case val && strict:
			rel = ">"
		case val && !strict:
			rel = ">="
		case !val && strict:
			rel = "<="
		default:
			rel = "<"
		}
	}
	if rel == "<" {
		if (signed && k == half) || (!signed && k == 0) {
			return // unsatisfiable
		}
		k, rel = (k-1)&m, "<="
	}
	if rel == ">" {
		if (signed && k == half-1) || (!signed && k == m) {
			return
		}
		k, rel = (k+1)&m, ">="
	}
	if !signed {
		if rel == "<=" {
			s.LearnRange(t, 0, k)
		} else {
			s.LearnRange(t, k, m)
		}
		return
	}
	kneg := k >= half
	cur := s.Range(t)
	switch {
	case rel == "<=" && kneg: // t in [min, k] (all negative)
		s.LearnRange(t, half, k)
	case rel == ">=" && !kneg: // t in [k, max] (all non-negative)
		s.LearnRange(t, k, half-1)
	case rel == "<=" && !kneg && cur.hi < half: // already known non-negative
		s.LearnRange(t, 0, k)
	case rel == ">=" && kneg && cur.lo >= half: // already known negative
		s.LearnRange(t, k, m)
	}
}

func full(w int) rng { return rng{0, mask(w)} }

// Range returns an interval containing the unsigned value of bit-vector term t.
func (s *TermStore) Range(t *Term) rng {
	if t.width == 0 {
		return rng{0, 1}
	}
	if t.op == OpConst {
		return rng{t.val, t.val}
	}
	if t.rEpoch == s.rangeEpoch+1 {
		return rng{t.rlo, t.rhi}
	}
	r := s.computeRange(t)
	if l, ok := s.learned[t]; ok {
		if l.lo > r.lo {
			r.lo = l.lo
		}
		if l.hi < r.hi {
			r.hi = l.hi
		}
		if r.lo > r.hi { // infeasible path: any sound answer will do
			r = rng{l.lo, l.hi}
		}
	}
	t.rlo, t.rhi, t.rEpoch = r.lo, r.hi, s.rangeEpoch+1
	return r
}

func (s *TermStore) computeRange(t *Term) rng {
	w := t.width
	f := full(w)
	switch t.op {
	case OpVar:
		if r, ok := s.varRange[t]; ok && r.hi <= mask(w) {
			return r
		}
		return f
	case OpIte:
		a, b := s.Range(t.args[1]), s.Range(t.args[2])
		if b.lo < a.lo {
			a.lo = b.lo
		}
		if b.hi > a.hi {
			a.hi = b.hi
		}
		return a
	case OpZExt:
		return s.Range(t.args[0])
	case OpSExt:
		a := s.Range(t.args[0])
		if a.hi < uint64(1)<<uint(t.args[0].width-1) {
			return a
		}
		return f
	case OpExtract:
		if t.val == 0 {
			a := s.Range(t.args[0])
			if a.hi <= mask(w) {
				return a
			}
		}
		return f
	case OpAdd:
		a, b := s.Range(t.args[0]), s.Range(t.args[1])
		lo, c1 := bits.Add64(a.lo, b.lo, 0)
		hi, c2 := bits.Add64(a.hi, b.hi, 0)
		if w < 64 {
			c1, c2 = lo>>uint(w), hi>>uint(w)
			lo, hi = lo&mask(w), hi&mask(w)
		}
		if c1 == c2 && lo <= hi { // wraps the same number of times at both ends
			return rng{lo, hi}
		}
		return f
	case OpSub:
		a, b := s.Range(t.args[0]), s.Range(t.args[1])
		if a.lo >= b.hi {
			return rng{a.lo - b.hi, a.hi - b.lo}
		}
		if a.hi < b.lo && w == 64 { // always borrows exactly once: a - b + 2^64
			return rng{a.lo - b.hi, a.hi - b.lo}
		}
		return f
	case OpMul:
		a, b := s.Range(t.args[0]), s.Range(t.args[1])
		h1, l1 := bits.Mul64(a.hi, b.hi)
		if h1 == 0 && l1 <= mask(w) {
			_, l0 := bits.Mul64(a.lo, b.lo)
			return rng{l0, l1}
		}
		if w == 64 && a.lo >= uint64(1)<<63 && b.hi < uint64(1)<<63 {
			// a entirely negative (two's complement), b non-negative: -(|a| * b) if it fits
			mlo, mhi := -a.hi, -a.lo // magnitudes, mlo <= mhi
			h, l := bits.Mul64(mhi, b.hi)
			if h == 0 && l <= uint64(1)<<63 {
				_, l0 := bits.Mul64(mlo, b.lo)
				if l0 == 0 {
					return f // could be zero: the range would wrap around
				}
				return rng{-l, -l0}
			}
		}
		return f
	case OpUDiv:
		a, b := s.Range(t.args[0]), s.Range(t.args[1])
		if b.lo > 0 {
			return rng{a.lo / b.hi, a.hi / b.lo}
		}
		return f
	case OpURem:
		a, b := s.Range(t.args[0]), s.Range(t.args[1])
		if b.lo > 0 {
			if b.lo == b.hi && a.lo/b.lo == a.hi/b.lo {
				return rng{a.lo % b.lo, a.hi % b.lo}
			}
			hi := b.hi - 1
			if a.hi < hi {
				hi = a.hi
			}
			return rng{0, hi}
		}
		return f
	case OpSDiv, OpSRem:
		a, b := s.Range(t.args[0]), s.Range(t.args[1])
		half := uint64(1) << uint(w-1)
		if a.hi < half && b.hi < half && b.lo > 0 {
			if t.op == OpSDiv {
				return rng{a.lo / b.hi, a.hi / b.lo}
			}
			if b.lo == b.hi && a.lo/b.lo == a.hi/b.lo {
				return rng{a.lo % b.lo, a.hi % b.lo}
			}
			hi := b.hi - 1
			if a.hi < hi {
				hi = a.hi
			}
			return rng{0, hi}
		}
		return f
	case OpBAnd:
		a, b := s.Range(t.args[0]), s.Range(t.args[1])
		hi := a.hi
		if b.hi < hi {
			hi = b.hi
		}
		return rng{0, hi}
	case OpBOr, OpBXor:
		a, b := s.Range(t.args[0]), s.Range(t.args[1])
		n := bits.Len64(a.hi | b.hi)
		if n < w {
			return rng{0, (uint64(1) << uint(n)) - 1}
		}
		return f
	case OpLShr:
		if t.args[1].IsConst() && t.args[1].val < uint64(w) {
			a := s.Range(t.args[0])
			return rng{a.lo >> t.args[1].val, a.hi >> t.args[1].val}
		}
		return rng{0, s.Range(t.args[0]).hi}
	case OpAShr:
		a := s.Range(t.args[0])
		if a.hi < uint64(1)<<uint(w-1) {
			if t.args[1].IsConst() && t.args[1].val < uint64(w) {
				return rng{a.lo >> t.args[1].val, a.hi >> t.args[1].val}
			}
			return rng{0, a.hi}
		}
		return f
	case OpShl:
		if t.args[1].IsConst() && t.args[1].val < uint64(w) {
			a := s.Range(t.args[0])
			k := t.args[1].val
			if bits.Len64(a.hi)+int(k) <= w {
				return rng{a.lo << k, a.hi << k}
			}
		}
		return f
	}
	return f
}

const narrowSpan = 1 << 28

// divByConst rewrites a/c or a%c (unsigned semantics; the caller guarantees that for the
// signed operators both operands are non-negative). Returns nil when nothing applies.
func (s *TermStore) divByConst(rem bool, a *Term, c uint64) *Term {
	w := a.width
	if c == 0 || a.IsConst() {
		return nil
	}
	// (x*c + y) / c = x and (x*c + y) % c = y when 0 <= y < c and nothing wraps
	if a.op == OpAdd {
		for i := 0; i < 2; i++ {
			mul, y := a.args[i], a.args[1-i]
			if mul.op != OpMul {
				continue
			}
			var x *Term
			if mul.args[1].IsConst() && mul.args[1].val == c {
				x = mul.args[0]
			} else if mul.args[0].IsConst() && mul.args[0].val == c {
				x = mul.args[1]
			}
			if x == nil {
				continue
			}
			ry, rx := s.Range(y), s.Range(x)
			if ry.hi >= c {
				continue
			}
			hi, lo := bits.Mul64(rx.hi, c)
			if hi != 0 || lo > mask(w)-ry.hi || (w == 64 && lo+ry.hi >= uint64(1)<<63) {
				continue // could wrap, or leave the non-negative signed range
			}
			if rem {
				return y
			}
			return x
		}
	}
	r := s.Range(a)
	if r.lo == 0 && r.hi == mask(w) {
		return nil
	}
	q0, q1 := r.lo/c, r.hi/c
	base := q0 * c
	if q0 == q1 {
		if rem {
			return s.Bin(OpSub, a, s.Const(w, base))
		}
		return s.Const(w, q0)
	}
	span := r.hi - base
	if span >= narrowSpan {
		return nil
	}
	k := bits.Len64(span) + 1
	if kc := bits.Len64(c) + 1; kc > k {
		k = kc
	}
	if k >= w {
		return nil
	}
	y := s.Extract(s.Bin(OpSub, a, s.Const(w, base)), k-1, 0)
	op := OpUDiv
	if rem {
		op = OpURem
	}
	n := s.ZExt(s.mk(&Term{op: op, width: k, args: []*Term{y, s.Const(k, c)}}), w)
	if rem {
		return n
	}
	return s.Bin(OpAdd, n, s.Const(w, q0))
}

// cmpByRange decides an unsigned (or non-negative signed) comparison by ranges.
func (s *TermStore) cmpByRange(op Op, a, b *Term) (bool, bool) {
	ra, rb := s.Range(a), s.Range(b)
	w := a.width
	if op == OpSLt || op == OpSLe {
		half := uint64(1) << uint(w-1)
		if ra.hi >= half || rb.hi >= half {
			return false, false
		}
	}
	switch op {
	case OpULt, OpSLt:
		if ra.hi < rb.lo {
			return true, true
		}
		if ra.lo >= rb.hi {
			return false, true
		}
	case OpULe, OpSLe:
		if ra.hi <= rb.lo {
			return true, true
		}
		if ra.lo > rb.hi {
			return false, true
		}
	}
	return false, false
}
