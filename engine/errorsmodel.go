package main

// errors.Is / errors.Unwrap / errors.As executed engine-side (the real ones go through
// internal/reflectlite): the chain is walked through the dynamic types' Unwrap() error and
// Is(error) bool methods, which run as real code.

import (
	"go/token"
	"go/types"

	"golang.org/x/tools/go/ssa"
)

func init() {
	externals["errors.Is"] = extErrorsIs
	externals["errors.Unwrap"] = func(e *Exec, fr *frame, pos token.Pos, fn *ssa.Function, a []Value) Value {
		return e.errUnwrap(fr, pos, a[0].(IfaceV))
	}
}

// ifaceMethod finds method name (no package: exported) on the dynamic type of v.
func (e *Exec) ifaceMethod(v IfaceV, name string) *ssa.Function {
	if v.t == nil {
		return nil
	}
	if _, isOpaque := v.v.(OpaqueV); isOpaque {
		return nil
	}
	ms := e.prog.MethodSets.MethodSet(v.t)
	for i := 0; i < ms.Len(); i++ {
		sel := ms.At(i)
		if sel.Obj().Name() == name {
			return e.prog.MethodValue(sel)
		}
	}
	return nil
}

func (e *Exec) errUnwrap(fr *frame, pos token.Pos, err IfaceV) Value {
	f := e.ifaceMethod(err, "Unwrap")
	if f == nil {
		return IfaceV{}
	}
	sig := f.Signature
	if sig.Params().Len() != 0 || sig.Results().Len() != 1 {
		return IfaceV{}
	}
	if _, isIface := sig.Results().At(0).Type().Underlying().(*types.Interface); !isIface {
		return IfaceV{} // Unwrap() []error: not followed by errors.Unwrap
	}
	r := e.call(fr, pos, f, []Value{err.v})
	if iv, ok := r.(IfaceV); ok {
		return iv
	}
	return IfaceV{}
}

func extErrorsIs(e *Exec, fr *frame, pos token.Pos, fn *ssa.Function, a []Value) Value {
	err, target := a[0].(IfaceV), a[1].(IfaceV)
	if err.t == nil || target.t == nil {
		return e.ts.Bool(err.t == nil && target.t == nil)
	}
	errT := fn.Signature.Params().At(0).Type()
	for depth := 0; depth < 16 && err.t != nil; depth++ {
		if types.Comparable(target.t) && types.Identical(err.t, target.t) {
			c := e.equal(errT, err, target)
			if c.IsTrue() || (!c.IsFalse() && e.decide(c)) {
				return e.ts.True
			}
		}
		if f := e.ifaceMethod(err, "Is"); f != nil && f.Signature.Params().Len() == 1 && f.Signature.Results().Len() == 1 {
			r := e.call(fr, pos, f, []Value{err.v, target})
			if t, ok := r.(*Term); ok && (t.IsTrue() || (!t.IsFalse() && e.decide(t))) {
				return e.ts.True
			}
		}
		next := e.errUnwrap(fr, pos, err)
		iv, _ := next.(IfaceV)
		err = iv
	}
	return e.ts.False
}
