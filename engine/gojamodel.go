package main

// Model of the slice of github.com/dop251/goja that omniparser's javascript custom
// functions use. The JavaScript engine itself is outside the technique; what the model keeps
// is exactly what isolation between calls depends on: the VM's global-variable table.
//
//   goja.New()                      a VM whose globals are the built-ins {Math, JSON}
//   (*Runtime).Set / Get            write / read a global
//   (*Runtime).GlobalObject().Delete  remove a global
//   goja.Compile(name, src, strict) a program that remembers its source text
//   (*Runtime).RunProgram(p)        "probe" semantics: for a source of the form
//                                   PROBE:n1,n2,...  the result is the string
//                                   typeof n1 + "," + typeof n2 ... computed from the
//                                   globals; a source containing "throw" fails after
//                                   reading them. Natively the harness passes the equivalent
//                                   real script to the real goja.
//   goja.IsNaN/IsInfinity/IsNull/IsUndefined   false for probe results
//   Value.Export() / String()       the probe string

import (
	"go/token"
	"go/types"
	"math"
	"strings"

	"golang.org/x/tools/go/ssa"
)

type gojaVM struct {
	names []string
	vals  map[string]Value
	cell  *Value
}

type gojaObj struct{ vm *gojaVM }
type gojaProg struct{ src string }
type gojaVal struct {
	s    string
	kind string // "" ordinary string result; "neginf" "posinf" "nan" "null" "undefined"
}
type gojaGlobalRef struct{ orig Value }

const gojaPkg = "github.com/dop251/goja."

func gojaVMOf(e *Exec, v Value, write bool) *gojaVM {
	e.parAccessObj(v, write) // a VM used by two threads without synchronisation is a data race
	p, ok := v.(PtrV).single()
	if !ok {
		panic(unsupported("goja model: VM through nil/multi pointer"))
	}
	vm := (*p).(OpaqueV).x.(*gojaVM)
	vm.cell = p
	return vm
}

func newCellPtr(x interface{}) PtrV {
	c := new(Value)
	*c = OpaqueV{x}
	return mkPtr(c)
}

func init() {
	externals[gojaPkg+"New"] = func(e *Exec, _ *frame, _ token.Pos, _ *ssa.Function, a []Value) Value {
		vm := &gojaVM{vals: map[string]Value{}}
		for _, b := range []string{"Math", "JSON"} {
			vm.names = append(vm.names, b)
			vm.vals[b] = OpaqueV{"builtin"}
		}
		return newCellPtr(vm)
	}
	externals["(*"+gojaPkg+"Runtime).Set"] = func(e *Exec, _ *frame, _ token.Pos, _ *ssa.Function, a []Value) Value {
		vm := gojaVMOf(e, a[0], true)
		name := e.concStr(a[1], "goja Set name")
		if _, ok := vm.vals[name]; !ok {
			vm.names = append(vm.names, name)
		}
		val := a[2]
		// a goja.Value obtained from Get is stored back as the original global
		if iv, ok := val.(IfaceV); ok && iv.t != nil {
			if o, ok := iv.v.(OpaqueV); ok {
				if ref, ok := o.x.(gojaGlobalRef); ok {
					val = ref.orig
				}
			}
		}
		vm.vals[name] = val
		return IfaceV{}
	}
	externals["(*"+gojaPkg+"Runtime).Get"] = func(e *Exec, _ *frame, _ token.Pos, fn *ssa.Function, a []Value) Value {
		vm := gojaVMOf(e, a[0], false)
		name := e.concStr(a[1], "goja Get name")
		v, ok := vm.vals[name]
		if !ok {
			return IfaceV{}
		}
		return IfaceV{t: rtypeMarker, v: OpaqueV{gojaGlobalRef{v}}}
	}
	externals["(*"+gojaPkg+"Runtime).GlobalObject"] = func(e *Exec, _ *frame, _ token.Pos, _ *ssa.Function, a []Value) Value {
		return newCellPtr(&gojaObj{gojaVMOf(e, a[0], false)})
	}
	externals["(*"+gojaPkg+"Object).Delete"] = func(e *Exec, _ *frame, _ token.Pos, _ *ssa.Function, a []Value) Value {
		p, _ := a[0].(PtrV).single()
		o := (*p).(OpaqueV).x.(*gojaObj)
		if e.parActive() && o.vm.cell != nil {
			e.parAccessCell(o.vm.cell, true)
		}
		name := e.concStr(a[1], "goja Delete name")
		if _, ok := o.vm.vals[name]; ok {
			delete(o.vm.vals, name)
			for i, n := range o.vm.names {
				if n == name {
					o.vm.names = append(o.vm.names[:i:i], o.vm.names[i+1:]...)
					break
				}
			}
		}
		return IfaceV{}
	}
	externals[gojaPkg+"Compile"] = func(e *Exec, _ *frame, _ token.Pos, _ *ssa.Function, a []Value) Value {
		src := e.concStr(a[1], "goja Compile src")
		if strings.Contains(src, "SYNTAXERROR") {
			return TupleV{PtrV{}, e.mkError("SyntaxError")}
		}
		return TupleV{newCellPtr(&gojaProg{src}), IfaceV{}}
	}
	externals["(*"+gojaPkg+"Runtime).RunProgram"] = func(e *Exec, _ *frame, _ token.Pos, _ *ssa.Function, a []Value) Value {
		vm := gojaVMOf(e, a[0], true)
		p, _ := a[1].(PtrV).single()
		prog := (*p).(OpaqueV).x.(*gojaProg)
		res := ""
		if i := strings.Index(prog.src, "PROBE:"); i >= 0 {
			list := prog.src[i+6:]
			if j := strings.IndexAny(list, " ;"); j >= 0 {
				list = list[:j]
			}
			var parts []string
			for _, n := range strings.Split(list, ",") {
				v, ok := vm.vals[n]
				switch {
				case !ok:
					parts = append(parts, "undefined")
				default:
					if o, isO := v.(OpaqueV); isO && o.x == "builtin" {
						parts = append(parts, "object")
					} else if iv, isI := v.(IfaceV); isI && iv.t != nil && isString(iv.t) {
						parts = append(parts, "string")
					} else {
						parts = append(parts, "other")
					}
				}
			}
			res = strings.Join(parts, ",")
		}
		if strings.Contains(prog.src, "throw") {
			return TupleV{IfaceV{}, e.mkError("Error: thrown at <eval>")}
		}
		// LIT:'text' — the script concatenates a string literal (whitespace inside it matters)
		if i := strings.Index(prog.src, "LIT:'"); i >= 0 {
			rest := prog.src[i+5:]
			if j := strings.Index(rest, "'"); j >= 0 {
				res += "|" + rest[:j]
			}
		}
		kind := ""
		if i := strings.Index(prog.src, "RESULT:"); i >= 0 {
			kind = prog.src[i+7:]
			if j := strings.IndexAny(kind, " ;"); j >= 0 {
				kind = kind[:j]
			}
		}
		return TupleV{IfaceV{t: rtypeMarker, v: OpaqueV{gojaVal{s: res, kind: kind}}}, IfaceV{}}
	}
	kindOf := func(v Value) string {
		if iv, ok := v.(IfaceV); ok && iv.t != nil {
			if o, ok := iv.v.(OpaqueV); ok {
				if gv, ok := o.x.(gojaVal); ok {
					return gv.kind
				}
			}
		}
		return ""
	}
	for n, kinds := range map[string][]string{"IsNaN": {"nan"}, "IsInfinity": {"neginf", "posinf"}, "IsNull": {"null"}, "IsUndefined": {"undefined"}} {
		kinds := kinds
		externals[gojaPkg+n] = func(e *Exec, _ *frame, _ token.Pos, _ *ssa.Function, a []Value) Value {
			k := kindOf(a[0])
			for _, x := range kinds {
				if k == x {
					return e.ts.True
				}
			}
			return e.ts.False
		}
	}
}

// gojaValueMethod: interface method calls on a model goja.Value.
func (e *Exec) gojaValueMethod(v gojaVal, name string) Value {
	switch name {
	case "Export":
		switch v.kind {
		case "neginf":
			return IfaceV{t: types.Typ[types.Float64], v: FloatV{math.Inf(-1)}}
		case "posinf":
			return IfaceV{t: types.Typ[types.Float64], v: FloatV{math.Inf(1)}}
		case "nan":
			return IfaceV{t: types.Typ[types.Float64], v: FloatV{math.NaN()}}
		case "null", "undefined":
			return IfaceV{}
		}
		return IfaceV{t: types.Typ[types.String], v: e.strConst(v.s)}
	case "String":
		switch v.kind {
		case "neginf":
			return e.strConst("-Infinity")
		case "posinf":
			return e.strConst("Infinity")
		case "nan":
			return e.strConst("NaN")
		case "null":
			return e.strConst("null")
		case "undefined":
			return e.strConst("undefined")
		}
		return e.strConst(v.s)
	}
	panic(unsupported("goja.Value method " + name))
}
