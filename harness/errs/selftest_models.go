package errs

// Conformance of the engine-side models and rewrites added for the property checks: the
// type-directed json.Marshal, errors.Is, math on concrete floats, time zone tables, interval
// based division folding (positive and negative numerators), threads.

import (
	"encoding/json"
	"errors"
	"io"
	"math"
	"sync"
	"sync/atomic"
	"time"

	zz "github.com/jf-tech/omniparser/zzverif"
)

type stInner struct {
	A string `json:"a,omitempty"`
	B int    `json:"b"`
}

type stTagged struct {
	stInner
	Name   string            `json:"name"`
	Skip   string            `json:"-"`
	Ptr    *stInner          `json:"ptr,omitempty"`
	M      map[string]int    `json:"m,omitempty"`
	L      []string          `json:"l"`
	Any    interface{}       `json:"any,omitempty"`
	hidden int
	Custom stCustom          `json:"custom"`
	E      map[string]string `json:"e,omitempty"`
	F      bool              `json:"f,omitempty"`
}

type stCustom struct{ v int }

func (c stCustom) MarshalJSON() ([]byte, error) {
	return json.Marshal(map[string]int{"v": c.v + 1})
}

type stWrap struct{ inner error }

func (w stWrap) Error() string { return "wrap: " + w.inner.Error() }
func (w stWrap) Unwrap() error { return w.inner }

var stSentinel = errors.New("sentinel")

func SelftestModels() {
	x := zz.NondetInt("x", 0, 5)
	// json.Marshal over structs
	v := stTagged{stInner: stInner{B: x}, Name: "n", Skip: "s", L: nil, M: map[string]int{"z": 1, "a": x}, Custom: stCustom{x}}
	if x > 2 {
		v.Ptr = &stInner{A: "p", B: 7}
		v.Any = []interface{}{"s", 1.5, true, nil}
		v.L = []string{"u", "v"}
		v.E = map[string]string{}
		v.F = true
	}
	b, err := json.Marshal(v)
	zz.Observe("json", string(b), err == nil)
	_, err = json.Marshal(map[string]interface{}{"f": math.Inf(1)})
	zz.Observe("jsonerr", err != nil)
	// errors.Is through wrappers
	e1 := stWrap{stWrap{io.EOF}}
	zz.Observe("is", errors.Is(e1, io.EOF), errors.Is(e1, stSentinel), errors.Is(stSentinel, stSentinel), errors.Unwrap(e1) != nil, errors.Is(nil, io.EOF))
	// math on concrete floats
	f := float64(zz.NondetChoice("fi", 3)) + 0.75
	zz.Observe("math", math.Trunc(f), math.Floor(-f), math.Ceil(f), math.Abs(-f), math.IsNaN(f), int64(math.Trunc(1e19)) < 0)
	// division folding: (k*1000+m)/1000, negative numerators, narrow ranges
	k := int64(zz.NondetInt("k", 0, 253402300799))
	m := int64(zz.NondetInt("m", 0, 999))
	n := k*1000 + m
	zz.Observe("div", n/1000 == k, n%1000 == m, (-n)/1000 == -k, (-n)%1000 == -m)
	d := int64(zz.NondetInt("d", 0, 86399))
	day := int64(18000)*86400 + d
	zz.Observe("narrow", day/86400, day%86400 == d, (day%86400)/3600 == d/3600, uint64(day)/86400)
	neg := -day
	zz.Observe("negdiv", neg/86400, neg%86400 == -d)
	// time: zone tables and civil arithmetic on concrete instants
	loc, lerr := time.LoadLocation("Australia/Lord_Howe")
	if lerr == nil {
		t0 := time.Unix(1617462000+int64(x)*1800, 0).In(loc)
		_, off := t0.Zone()
		y, mo, dd := t0.Date()
		t1 := time.Date(y, mo, dd, t0.Hour(), t0.Minute(), t0.Second(), 0, loc)
		zz.Observe("time", off, y, int(mo), dd, t0.Hour(), t0.Minute(), t1.Unix()-t0.Unix())
	}
	// threads: a mutex-protected counter and an atomic one, joined
	var mu sync.Mutex
	cnt, acnt := 0, int64(0)
	inc := func() {
		for i := 0; i < 2; i++ {
			mu.Lock()
			cnt++
			mu.Unlock()
			atomic.AddInt64(&acnt, 1)
		}
	}
	zz.Par(inc, inc)
	zz.Observe("par", cnt, acnt)
	// the rest of sync/atomic
	var av atomic.Value
	av.Store("first")
	s0, _ := av.Load().(string)
	okCAS := atomic.CompareAndSwapInt64(&acnt, 4, 10)
	noCAS := atomic.CompareAndSwapInt64(&acnt, 4, 11)
	old := atomic.SwapInt64(&acnt, 12)
	var u32 uint32
	atomic.StoreUint32(&u32, uint32(x))
	zz.Observe("atomic", s0, okCAS, noCAS, old, acnt, atomic.LoadUint32(&u32))
}
