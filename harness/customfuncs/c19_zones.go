package customfuncs

import (
	"errors"
	"strconv"
	"time"

	zz "github.com/jf-tech/omniparser/zzverif"
)

// C19Zones: the zone logic of dateTimeToRFC3339 / dateTimeLayoutToRFC3339 / dateTimeToEpoch
// (parseDateTime's bonding of a zone-less reading with fromTZ, conversion to toTZ, the hasTZ
// bookkeeping, the empty-input and parse-error rules) on the real code, the real go-corelib
// OverwriteTZ/ConvertTZ and the real time package (time.Date, Time.In, Zone, Location.lookup)
// over the real IANA transition tables (engine/timeloc.go).
//
// The parsed reading is symbolic: an arbitrary second within ±W seconds of a zone transition
// chosen from the window of years (every transition of the from/to zone in the window is a
// choice), so that all DST cases (gap, overlap, just before/after) are inside the bound.
// Cut: the text parser (times.SmartParse / time.Parse) is redirected in the engine to return
// that reading, with or without zone information, or a parse error; natively the harness
// renders the reading as text and goes through the real parser and formatter.
//
// Oracle ("Go's time arithmetic on the generated instant", at the level of seconds):
//   reading carries a zone  -> the instant is unchanged, shown at toTZ's offset (or its own);
//   no zone, fromTZ given   -> result u with u + offset_fromTZ(u) = reading; if no such u exists
//                              (the reading falls into a DST gap) u is the reading minus one of
//                              the two offsets around the gap (time.Date's documented choice);
//   then toTZ               -> same instant u, shown at toTZ's offset;
//   no zone at all          -> the reading itself, formatted without zone.

var zzZoneNames = []string{"", "America/New_York", "Australia/Lord_Howe", "Asia/Kolkata", "Europe/London", "UTC"}

var (
	zzFace    int64
	zzHasTZ   bool
	zzBad     bool
	zzOutHas  bool
	zzOutSet  bool
	zzEpochOut int64
)

var zzErrParse = errors.New("unable to parse")

func zzSmartParse(s string) (time.Time, bool, error) {
	if zzBad {
		return time.Time{}, false, zzErrParse
	}
	return time.Unix(zzFace, 0).UTC(), zzHasTZ, nil
}

func zzTimeParse(layout, value string) (time.Time, error) {
	if zzBad {
		return time.Time{}, zzErrParse
	}
	return time.Unix(zzFace, 0).UTC(), nil
}

func zzRFC3339Cap(t time.Time, hasTZ bool) string {
	zzOutTime, zzOutHas, zzOutSet = t, hasTZ, true
	return "T"
}

func zzFormatIntCap(i int64, base int) string {
	zzEpochOut = i
	return "N"
}

func zzOffsetAt(loc *time.Location, u int64) int64 {
	_, off := time.Unix(u, 0).In(loc).Zone()
	return int64(off)
}

// zzTransitions: the zone transitions of loc inside [from, to) (Unix seconds), found by
// walking Time.ZoneBounds.
func zzTransitions(loc *time.Location, from, to int64) []int64 {
	var out []int64
	t := time.Unix(from, 0).In(loc)
	for i := 0; i < 64; i++ {
		_, end := t.ZoneBounds()
		if end.IsZero() || end.Unix() >= to {
			break
		}
		out = append(out, end.Unix())
		t = end
	}
	return out
}

func C19Zones() {
	Y0 := zz.Param("Y0", 2021)
	Y1 := zz.Param("Y1", 2022)
	W := zz.Param("W", 90000)
	fi := zz.NondetChoice("fromTZ", len(zzZoneNames))
	ti := zz.NondetChoice("toTZ", len(zzZoneNames))
	fromTZ, toTZ := zzZoneNames[fi], zzZoneNames[ti]
	fn := zz.NondetChoice("fn", 3) // 0 dateTimeToRFC3339, 1 dateTimeLayoutToRFC3339, 2 dateTimeToEpoch
	if fn == 2 {
		zz.Assume(ti == 0)
	}
	zzHasTZ = zz.NondetBool("readingHasZone")
	zzBad = false

	from := time.Date(Y0, 1, 1, 0, 0, 0, 0, time.UTC).Unix()
	to := time.Date(Y1, 1, 1, 0, 0, 0, 0, time.UTC).Unix()
	// anchors: every transition of the zones involved in the window, plus the window start
	anchors := []int64{from + 40*86400}
	var fromLoc, toLoc *time.Location
	if fromTZ != "" {
		fromLoc, _ = time.LoadLocation(fromTZ)
		anchors = append(anchors, zzTransitions(fromLoc, from, to)...)
	}
	if toTZ != "" {
		toLoc, _ = time.LoadLocation(toTZ)
		if toTZ != fromTZ {
			anchors = append(anchors, zzTransitions(toLoc, from, to)...)
		}
	}
	anchor := anchors[zz.NondetChoice("anchor", len(anchors))]
	delta := int64(zz.NondetInt("delta", 0, 2*W))
	zzFace = anchor - int64(W) + delta

	// the two offsets around the anchor in the zone the reading is bonded with
	bondLoc := fromLoc
	if zzHasTZ {
		bondLoc = nil
	} else if bondLoc == nil && toLoc != nil {
		bondLoc = toLoc // no fromTZ: the reading is taken at face value in toTZ
	}

	zzOutSet = false
	var err error
	var out string
	if zz.Symbolic() {
		switch fn {
		case 0:
			out, err = DateTimeToRFC3339(nil, "x", fromTZ, toTZ)
		case 1:
			out, err = DateTimeLayoutToRFC3339(nil, "x", "L", strconv.FormatBool(zzHasTZ), fromTZ, toTZ)
		default:
			out, err = DateTimeToEpoch(nil, "x", fromTZ, epochUnitSeconds)
		}
	} else {
		// native replay: render the reading as text, go through the real parser and formatter
		layout := "2006-01-02T15:04:05"
		if zzHasTZ {
			layout = "2006-01-02T15:04:05Z07:00"
		}
		text := time.Unix(zzFace, 0).UTC().Format(layout)
		switch fn {
		case 0:
			out, err = DateTimeToRFC3339(nil, text, fromTZ, toTZ)
		case 1:
			out, err = DateTimeLayoutToRFC3339(nil, text, layout, strconv.FormatBool(zzHasTZ), fromTZ, toTZ)
		default:
			out, err = DateTimeToEpoch(nil, text, fromTZ, epochUnitSeconds)
		}
		if err == nil && fn == 2 {
			zzEpochOut, err = strconv.ParseInt(out, 10, 64)
		} else if err == nil {
			zzOutTime, err = time.Parse(time.RFC3339, out)
			zzOutHas = err == nil
			if err != nil {
				zzOutTime, err = time.Parse("2006-01-02T15:04:05", out)
			}
			zzOutSet = err == nil
		}
	}
	zz.Assert(err == nil, "a parsable reading gives no error")
	_ = out

	// expected instant
	var u int64
	gapOK := true
	if bondLoc == nil {
		u = zzFace
	} else {
		offBefore := zzOffsetAt(bondLoc, anchor-1)
		offAfter := zzOffsetAt(bondLoc, anchor)
		if fn == 2 {
			u = zzEpochOut
		} else {
			u = zzOutTime.Unix()
		}
		exact := u+zzOffsetAt(bondLoc, u) == zzFace
		c1, c2 := zzFace-offBefore, zzFace-offAfter
		exists := c1+zzOffsetAt(bondLoc, c1) == zzFace || c2+zzOffsetAt(bondLoc, c2) == zzFace
		gapOK = zzAnd(u == c1 || u == c2, zz.Implies(exists, exact))
		zz.Cover("bonded")
	}
	if fn == 2 {
		zz.Assert(gapOK, "dateTimeToEpoch: the zone-less reading is bonded with fromTZ (same wall clock)")
		zz.Assert(zzEpochOut == u, "dateTimeToEpoch: Unix time of the instant")
		zz.Observe("epoch", zzFace, zzEpochOut)
		zz.Cover("epoch")
		return
	}
	zz.Assert(zzOutSet, "a formatted time is produced")
	zz.Assert(gapOK, "the zone-less reading is bonded with fromTZ/toTZ keeping its wall clock")
	zz.Assert(zzOutTime.Unix() == u, "the instant is preserved")
	_, off := zzOutTime.Zone()
	zz.Observe("result", zzFace, zzOutTime.Unix(), off, zzOutHas)
	switch {
	case toLoc != nil:
		zz.Assert(zzOutHas && int64(off) == zzOffsetAt(toLoc, u), "shown at toTZ's offset for that instant")
		zz.Cover("converted")
	case bondLoc != nil:
		zz.Assert(zzOutHas && int64(off) == zzOffsetAt(bondLoc, u), "shown at fromTZ's offset for that instant")
	case zzHasTZ:
		zz.Assert(zzOutHas && off == 0, "a reading with its own zone keeps it")
	default:
		zz.Assert(!zzOutHas && off == 0, "no zone involved: the same wall clock, formatted without zone")
		zz.Cover("zoneless")
	}
}

func zzAnd(a, b bool) bool { return !zz.Implies(a, !b) }

// C19EmptyBad: empty input gives empty output, unparsable input gives an error — never a time.
func C19EmptyBad() {
	fi := zz.NondetChoice("fromTZ", len(zzZoneNames))
	ti := zz.NondetChoice("toTZ", len(zzZoneNames))
	fromTZ, toTZ := zzZoneNames[fi], zzZoneNames[ti]
	fn := zz.NondetChoice("fn", 4)
	empty := zz.NondetBool("empty")
	zzBad, zzHasTZ, zzFace = true, false, 0
	text := "not a time"
	if empty {
		text = ""
	}
	var out string
	var err error
	switch fn {
	case 0:
		out, err = DateTimeToRFC3339(nil, text, fromTZ, toTZ)
	case 1:
		out, err = DateTimeLayoutToRFC3339(nil, text, "2006-01-02", "false", fromTZ, toTZ)
	case 2:
		out, err = DateTimeToEpoch(nil, text, fromTZ, epochUnitSeconds)
	default:
		if !empty {
			text = "12x"
		}
		out, err = EpochToDateTimeRFC3339(nil, text, epochUnitMilliseconds)
	}
	if empty {
		zz.Cover("empty")
		zz.Assert(err == nil && out == "", "empty input yields empty output")
	} else {
		zz.Cover("bad")
		zz.Assert(err != nil && out == "", "unparsable input yields an error and no time")
	}
}


// C19EpochText: the epoch argument is a decimal number: padded with zeros it is still decimal
// (fixed-width fields), and text in another base or with digit separators is an error.
func C19EpochText() {
	cases := []struct {
		in   string
		sec  int64
		fail bool
	}{
		{"100", 100, false}, {"0000000000000100", 100, false}, {"089", 89, false}, {"-0012", -12, false},
		{"0x10", 0, true}, {"0b101", 0, true}, {"0o17", 0, true}, {"1_000", 0, true}, {"12a", 0, true}, {" 12", 0, true},
	}
	c := cases[zz.NondetChoice("case", len(cases))]
	zzOutSet = false
	out, err := EpochToDateTimeRFC3339(nil, c.in, epochUnitSeconds)
	if c.fail {
		zz.Cover("rejected")
		zz.Assert(err != nil && out == "", "text that is not a decimal number is an error, never a time")
		return
	}
	zz.Cover("accepted")
	zz.Assert(err == nil, "a zero-padded decimal epoch is accepted")
	if zz.Symbolic() {
		zz.Assert(zzOutSet && zzOutTime.Unix() == c.sec, "and read in base 10")
	} else {
		t, perr := time.Parse(time.RFC3339, out)
		zz.Assert(perr == nil && t.Unix() == c.sec, "and read in base 10")
	}
}

// C15MergeFresh: assembling an extension's custom functions (Merge) never changes the maps it
// is given — the process-wide registries (CommonCustomFuncs) other schemas resolve against —
// and yields their union with later maps overriding earlier ones.
func C15MergeFresh() {
	f1 := func() (string, error) { return "1", nil }
	f2 := func() (string, error) { return "2", nil }
	names := []string{"upper", "tag", "lower"}
	a, b := CustomFuncs{}, CustomFuncs{}
	inA, inB := make([]bool, len(names)), make([]bool, len(names))
	for i, n := range names {
		if zz.NondetBool("a." + n) {
			a[n], inA[i] = f1, true
		}
		if zz.NondetBool("b." + n) {
			b[n], inB[i] = f2, true
		}
	}
	var first CustomFuncs = a
	if zz.NondetBool("nilFirst") {
		first = nil
	}
	m := Merge(first, b)
	for i, n := range names {
		_, hasA := a[n]
		_, hasB := b[n]
		zz.Assert(hasA == inA[i] && hasB == inB[i], "the maps handed to Merge are not changed")
		_, hasM := m[n]
		zz.Assert(hasM == ((first != nil && inA[i]) || inB[i]), "the result is the union")
	}
	m["extra"] = f1
	_, leaked := a["extra"]
	_, leaked2 := b["extra"]
	zz.Assert(!leaked && !leaked2, "the result is a fresh map: writing to it does not reach the inputs")
	zz.Cover("merged")
}
