package main

// Persistent SMT solver process (z3 -in / z3-new -in / cvc5 --incremental) driven with
// push/pop. Terms are sent as define-fun chains (one per hash-consed node) so shared
// sub-terms are never duplicated. Any "(error" line makes the pending query inconclusive.

import (
	"bufio"
	"fmt"
	"io"
	"os"
	"os/exec"
	"strconv"
	"strings"
	"time"
)

type SatResult int

const (
	Unsat SatResult = iota
	Sat
	Unknown
)

func (r SatResult) String() string { return [...]string{"unsat", "sat", "unknown"}[r] }

type Solver struct {
	kind      string
	cmd       *exec.Cmd
	in        io.WriteCloser
	out       *bufio.Reader
	buf       strings.Builder
	sent      map[*Term]bool
	declared  map[string]bool
	level     int
	Queries   int
	NSat      int
	NUnsat    int
	NUnknown  int
	Time      time.Duration
	SawError  string
	timeoutMs int
	logf      *os.File
}

func NewSolver(kind string, timeoutMs int) (*Solver, error) {
	var cmd *exec.Cmd
	switch kind {
	case "z3":
		cmd = exec.Command("z3", "-in")
	case "z3-new":
		cmd = exec.Command("z3-new", "-in")
	case "cvc5":
		cmd = exec.Command("cvc5", "--incremental", "--lang=smt2", fmt.Sprintf("--tlimit-per=%d", timeoutMs))
	default:
		return nil, fmt.Errorf("unknown solver %q", kind)
	}
	in, err := cmd.StdinPipe()
	if err != nil {
		return nil, err
	}
	outp, err := cmd.StdoutPipe()
	if err != nil {
		return nil, err
	}
	cmd.Stderr = os.Stderr
	if err := cmd.Start(); err != nil {
		return nil, err
	}
	s := &Solver{kind: kind, cmd: cmd, in: in, out: bufio.NewReaderSize(outp, 1<<16),
		sent: map[*Term]bool{}, declared: map[string]bool{}, timeoutMs: timeoutMs}
	if p := os.Getenv("GOSMT_SMTLOG"); p != "" {
		s.logf, _ = os.Create(fmt.Sprintf("%s.%d.smt2", p, os.Getpid()))
	}
	s.raw("(set-option :global-declarations true)")
	s.raw("(set-option :produce-models true)")
	if kind != "cvc5" {
		s.raw(fmt.Sprintf("(set-option :timeout %d)", timeoutMs))
	} else {
		s.raw("(set-logic ALL)")
	}
	return s, nil
}

func (s *Solver) Close() {
	if s == nil || s.cmd == nil {
		return
	}
	s.raw("(exit)")
	s.flush()
	s.in.Close()
	done := make(chan struct{})
	go func() { s.cmd.Wait(); close(done) }()
	select {
	case <-done:
	case <-time.After(2 * time.Second):
		s.cmd.Process.Kill()
	}
	if s.logf != nil {
		s.logf.Close()
	}
}

func (s *Solver) raw(line string) {
	s.buf.WriteString(line)
	s.buf.WriteByte('\n')
}

func (s *Solver) flush() {
	if s.buf.Len() == 0 {
		return
	}
	if s.logf != nil {
		s.logf.WriteString(s.buf.String())
	}
	io.WriteString(s.in, s.buf.String())
	s.buf.Reset()
}

// define makes sure t (and everything below it) is known to the solver.
func (s *Solver) define(t *Term) {
	if s.sent[t] {
		return
	}
	// iterative post-order
	type fr struct {
		t *Term
		i int
	}
	stack := []fr{{t, 0}}
	for len(stack) > 0 {
		top := &stack[len(stack)-1]
		if s.sent[top.t] {
			stack = stack[:len(stack)-1]
			continue
		}
		if top.i < len(top.t.args) {
			a := top.t.args[top.i]
			top.i++
			if !s.sent[a] {
				stack = append(stack, fr{a, 0})
			}
			continue
		}
		u := top.t
		switch u.op {
		case OpConst:
		case OpVar:
			if !s.declared[u.name] {
				s.declared[u.name] = true
				s.raw(fmt.Sprintf("(declare-const %s %s)", smtName(u.name), sortSMT(u.width)))
			}
		case OpUF:
			key := "uf:" + u.name
			if !s.declared[key] {
				s.declared[key] = true
				sig := u.store.ufs[u.name]
				var sb strings.Builder
				for _, w := range sig[:len(sig)-1] {
					sb.WriteString(sortSMT(w) + " ")
				}
				s.raw(fmt.Sprintf("(declare-fun |uf_%s| (%s) %s)", u.name, strings.TrimSpace(sb.String()), sortSMT(sig[len(sig)-1])))
			}
			s.raw(fmt.Sprintf("(define-fun t%d () %s %s)", u.id, sortSMT(u.width), u.body()))
		default:
			s.raw(fmt.Sprintf("(define-fun t%d () %s %s)", u.id, sortSMT(u.width), u.body()))
		}
		s.sent[u] = true
		stack = stack[:len(stack)-1]
	}
}

// Prepare makes sure the given terms are declared/defined; to be called BEFORE the
// check-sat whose model will be queried for them (cvc5 does not keep a model valid across
// intervening definitions).
func (s *Solver) Prepare(terms []*Term) {
	for _, t := range terms {
		s.define(t)
	}
}

func (s *Solver) Push() {
	s.raw("(push 1)")
	s.level++
}

func (s *Solver) Pop(n int) {
	if n <= 0 {
		return
	}
	s.raw(fmt.Sprintf("(pop %d)", n))
	s.level -= n
}

func (s *Solver) Assert(t *Term) {
	s.define(t)
	s.raw("(assert " + t.ref() + ")")
}

func (s *Solver) Check() SatResult {
	s.raw("(check-sat)")
	s.flush()
	start := time.Now()
	res := Unknown
	for {
		line, err := s.out.ReadString('\n')
		if err != nil {
			s.SawError = "solver died: " + err.Error()
			break
		}
		line = strings.TrimSpace(line)
		if line == "" {
			continue
		}
		if line == "sat" {
			res = Sat
			break
		}
		if line == "unsat" {
			res = Unsat
			break
		}
		if line == "unknown" || line == "timeout" {
			res = Unknown
			break
		}
		if strings.Contains(line, "error") {
			s.SawError = line
			// keep reading until the verdict line; verdict is not trusted
			continue
		}
	}
	s.Time += time.Since(start)
	s.Queries++
	if s.SawError != "" {
		res = Unknown
	}
	switch res {
	case Sat:
		s.NSat++
	case Unsat:
		s.NUnsat++
	default:
		s.NUnknown++
	}
	return res
}

// CheckWith: is (current assertions ∧ t) satisfiable?
func (s *Solver) CheckWith(t *Term) SatResult {
	s.Push()
	s.Assert(t)
	r := s.Check()
	s.Pop(1)
	return r
}

// GetTermValues returns the model values of the given terms (positional); must follow a
// Sat Check at the same assertion level (no pop in between).
func (s *Solver) GetTermValues(terms []*Term) []uint64 {
	res := make([]uint64, len(terms))
	if len(terms) == 0 {
		return res
	}
	const chunk = 200
	for base := 0; base < len(terms); base += chunk {
		end := base + chunk
		if end > len(terms) {
			end = len(terms)
		}
		s.getValuesChunk(terms[base:end], res[base:end])
	}
	return res
}

func (s *Solver) getValuesChunk(vars []*Term, res []uint64) {
	var sb strings.Builder
	sb.WriteString("(get-value (")
	for _, v := range vars {
		s.define(v)
		sb.WriteString(v.ref() + " ")
	}
	sb.WriteString("))")
	s.raw(sb.String())
	s.flush()
	// read a balanced s-expression
	depth := 0
	started := false
	inQuote := false
	var txt strings.Builder
	for {
		c, err := s.out.ReadByte()
		if err != nil {
			s.SawError = "solver died in get-value"
			return
		}
		if c == '|' {
			inQuote = !inQuote
		}
		if !inQuote {
			if c == '(' {
				depth++
				started = true
			}
			if c == ')' {
				depth--
			}
		}
		txt.WriteByte(c)
		if started && depth == 0 {
			break
		}
	}
	t := txt.String()
	if strings.Contains(t, "(error") {
		s.SawError = t
		return
	}
	toks := tokenize(t)
	i := 1
	for k := range vars {
		if i >= len(toks) || toks[i] != "(" {
			break
		}
		i++ // (
		// name: a token or a parenthesised expression
		if toks[i] == "(" {
			d := 0
			for {
				if toks[i] == "(" {
					d++
				}
				if toks[i] == ")" {
					d--
				}
				i++
				if d == 0 {
					break
				}
			}
		} else {
			i++
		}
		val := toks[i]
		if val == "(" {
			if toks[i+1] == "_" && strings.HasPrefix(toks[i+2], "bv") {
				n, _ := strconv.ParseUint(toks[i+2][2:], 10, 64)
				res[k] = n
			}
			for toks[i] != ")" {
				i++
			}
			i++
		} else {
			res[k] = parseSMTConst(val)
			i++
		}
		i++ // )
	}
}

func parseSMTConst(v string) uint64 {
	switch {
	case v == "true":
		return 1
	case v == "false":
		return 0
	case strings.HasPrefix(v, "#x"):
		n, _ := strconv.ParseUint(v[2:], 16, 64)
		return n
	case strings.HasPrefix(v, "#b"):
		n, _ := strconv.ParseUint(v[2:], 2, 64)
		return n
	}
	return 0
}

func tokenize(t string) []string {
	var toks []string
	i := 0
	for i < len(t) {
		c := t[i]
		switch {
		case c == '(' || c == ')':
			toks = append(toks, string(c))
			i++
		case c == ' ' || c == '\n' || c == '\t' || c == '\r':
			i++
		case c == '|':
			j := i + 1
			for j < len(t) && t[j] != '|' {
				j++
			}
			toks = append(toks, t[i:j+1])
			i = j + 1
		default:
			j := i
			for j < len(t) && !strings.ContainsRune("() \n\t\r", rune(t[j])) {
				j++
			}
			toks = append(toks, t[i:j])
			i = j
		}
	}
	return toks
}
