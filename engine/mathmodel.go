package main

// math functions on concrete floats (the engine has no symbolic floating point; float values
// are always concrete, so these are evaluated by the host's math package).

import (
	"go/token"
	"math"

	"golang.org/x/tools/go/ssa"
)

func init() {
	un := func(f func(float64) float64) func(*Exec, *frame, token.Pos, *ssa.Function, []Value) Value {
		return func(e *Exec, _ *frame, _ token.Pos, _ *ssa.Function, a []Value) Value {
			return FloatV{f(a[0].(FloatV).f)}
		}
	}
	for name, f := range map[string]func(float64) float64{
		"Trunc": math.Trunc, "Floor": math.Floor, "Ceil": math.Ceil, "Abs": math.Abs, "Round": math.Round,
		"Sqrt": math.Sqrt, "RoundToEven": math.RoundToEven,
	} {
		externals["math."+name] = un(f)
	}
	externals["math.IsNaN"] = func(e *Exec, _ *frame, _ token.Pos, _ *ssa.Function, a []Value) Value {
		return e.ts.Bool(math.IsNaN(a[0].(FloatV).f))
	}
	externals["math.IsInf"] = func(e *Exec, _ *frame, _ token.Pos, _ *ssa.Function, a []Value) Value {
		return e.ts.Bool(math.IsInf(a[0].(FloatV).f, int(e.concretizeInt(a[1].(*Term), "math.IsInf sign"))))
	}
	externals["math.Inf"] = func(e *Exec, _ *frame, _ token.Pos, _ *ssa.Function, a []Value) Value {
		return FloatV{math.Inf(int(e.concretizeInt(a[0].(*Term), "math.Inf sign")))}
	}
	externals["math.NaN"] = func(e *Exec, _ *frame, _ token.Pos, _ *ssa.Function, a []Value) Value {
		return FloatV{math.NaN()}
	}
	externals["math.Float64bits"] = func(e *Exec, _ *frame, _ token.Pos, _ *ssa.Function, a []Value) Value {
		return e.ts.Const(64, math.Float64bits(a[0].(FloatV).f))
	}
	externals["math.Mod"] = func(e *Exec, _ *frame, _ token.Pos, _ *ssa.Function, a []Value) Value {
		return FloatV{math.Mod(a[0].(FloatV).f, a[1].(FloatV).f)}
	}
	externals["math.Pow"] = func(e *Exec, _ *frame, _ token.Pos, _ *ssa.Function, a []Value) Value {
		return FloatV{math.Pow(a[0].(FloatV).f, a[1].(FloatV).f)}
	}
	externals["math.Modf"] = func(e *Exec, _ *frame, _ token.Pos, _ *ssa.Function, a []Value) Value {
		i, f := math.Modf(a[0].(FloatV).f)
		return TupleV{FloatV{i}, FloatV{f}}
	}
}
