package main

// Symbolic interpreter for go/ssa. One Exec per worker; one path at a time, re-executed from
// the harness entry for every path (decisions come from a recorded prefix, see explore.go).

import (
	"fmt"
	"os"
	"go/constant"
	"go/token"
	"go/types"
	"strings"

	"golang.org/x/tools/go/ssa"
)

type deferred struct {
	fn   Value
	args []Value
}

type frame struct {
	fn     *ssa.Function
	env    map[ssa.Value]Value
	block  *ssa.BasicBlock
	prev   *ssa.BasicBlock
	defers []deferred
	visits map[int]int
	result Value
	caller *frame
	pos    token.Pos
	recovered bool
}

func (e *Exec) get(fr *frame, v ssa.Value) Value {
	switch x := v.(type) {
	case *ssa.Const:
		return e.constVal(x)
	case *ssa.Global:
		return mkPtr(e.globalCell(x))
	case *ssa.Function:
		return x
	case *ssa.Builtin:
		return x
	}
	r, ok := fr.env[v]
	if !ok {
		panic(fmt.Sprintf("engine: no value for %s (%T) in %s", v.Name(), v, fr.fn))
	}
	return r
}

func (e *Exec) constVal(c *ssa.Const) Value {
	t := c.Type()
	if c.Value == nil {
		return e.zero(t)
	}
	if tp, ok := t.(*types.TypeParam); ok {
		_ = tp
		panic(unsupported("const of type parameter"))
	}
	if w, _, ok := intWidth(t); ok {
		if w == 0 {
			return e.ts.Bool(constant.BoolVal(c.Value))
		}
		if i, ok := constant.Int64Val(constant.ToInt(c.Value)); ok {
			return e.ts.Const(w, uint64(i))
		}
		u, _ := constant.Uint64Val(constant.ToInt(c.Value))
		return e.ts.Const(w, u)
	}
	if isString(t) {
		return e.strConst(constant.StringVal(c.Value))
	}
	if isFloat(t) {
		f, _ := constant.Float64Val(c.Value)
		return FloatV{f}
	}
	panic(unsupported("const of type " + t.String()))
}

func (e *Exec) posStr(p token.Pos) string {
	if !p.IsValid() {
		return "?"
	}
	ps := e.prog.Fset.Position(p)
	f := ps.Filename
	if i := strings.LastIndex(f, "/"); i >= 0 {
		j := strings.LastIndex(f[:i], "/")
		f = f[j+1:]
	}
	return fmt.Sprintf("%s:%d", f, ps.Line)
}

func (e *Exec) tpanic(fr *frame, instr ssa.Instruction, msg string) {
	pos := "?"
	if instr != nil {
		p := instr.Pos()
		if !p.IsValid() && fr != nil {
			p = fr.pos
		}
		pos = e.posStr(p)
		if fr != nil {
			pos = fr.fn.String() + "@" + pos
		}
	}
	panic(targetPanic{msg: msg, pos: pos})
}

// callFunction runs fn(args) and returns its result (nil, a Value, or TupleV).
func (e *Exec) call(caller *frame, pos token.Pos, fnv Value, args []Value) Value {
	switch fn := fnv.(type) {
	case *ssa.Function:
		if fn == nil {
			panic(targetPanic{msg: "call of nil function", pos: e.posStr(pos)})
		}
		return e.callSSA(caller, pos, fn, args, nil)
	case *Closure:
		if fn == nil {
			panic(targetPanic{msg: "call of nil func value", pos: e.posStr(pos)})
		}
		if fn.fn == nil { // pre-computed result of a modelled interface method
			return fn.env[0]
		}
		return e.callSSA(caller, pos, fn.fn, args, fn.env)
	case *ssa.Builtin:
		return e.callBuiltin(caller, pos, fn, args)
	}
	panic(unsupported(fmt.Sprintf("call of %T", fnv)))
}

func (e *Exec) callSSA(caller *frame, pos token.Pos, fn *ssa.Function, args []Value, env []Value) Value {
	name := fn.String()
	if fn.Parent() == nil {
		if orig := fn.Origin(); orig != nil {
			name = orig.String()
		}
		if to, ok := e.cfg.Redirect[name]; ok && e.inInit == 0 {
			if tf := e.redirectTarget(to); tf != fn {
				return e.callSSA(caller, pos, tf, args, nil)
			}
		}
		if ext, ok := externals[name]; ok {
			return ext(e, caller, pos, fn, args)
		}
		if strings.HasPrefix(fn.Name(), "zzNondetPick") {
			return extNondetPick(e, caller, pos, fn, args)
		}
	}
	if e.inInit == 0 && (e.pureDepth > 0 || isPureName(fn) || e.cfg.PureFns[name]) {
		return e.callPure(caller, pos, fn, args, env)
	}
	if e.inInit > 0 && fn.Name() == "init" && fn.Synthetic != "" && len(e.initPkg) > 0 && fn.Pkg != e.initPkg[len(e.initPkg)-1] {
		return nil // imported package initialisers run lazily
	}
	if fn.Blocks == nil {
		panic(unsupported("no body for " + name))
	}
	e.depth++
	if e.depth > e.cfg.MaxDepth {
		e.depth--
		if _, on := e.ghost["hangviolation"]; on && e.inInit == 0 {
			panic(hangPanic{"unbounded recursion (call depth " + fmt.Sprint(e.cfg.MaxDepth) + ") at " + name})
		}
		panic(pathEnd{"unwind:call-depth " + name})
	}
	e.funcsSeen[fn] = true
	if callTrace != "" && strings.Contains(name, callTrace) {
		var as []string
		for _, a := range args {
			as = append(as, showVal(a))
		}
		fmt.Fprintf(os.Stderr, "%*sCALL %s(%s)\n", e.depth, "", name, strings.Join(as, ", "))
		defer func(d int) { fmt.Fprintf(os.Stderr, "%*sRET  %s\n", d, "", name) }(e.depth)
	}
	fr := &frame{fn: fn, env: make(map[ssa.Value]Value, len(fn.Params)+len(fn.FreeVars)+16), caller: caller, pos: pos}
	for i, p := range fn.Params {
		fr.env[p] = args[i]
	}
	for i, fv := range fn.FreeVars {
		fr.env[fv] = env[i]
	}
	// stack allocs
	for _, l := range fn.Locals {
		cell := new(Value)
		fr.env[l] = mkPtr(cell)
	}
	fr.block = fn.Blocks[0]
	e.runFrameRecover(fr)
	e.depth--
	if callTrace != "" && strings.Contains(name, callTrace) {
		fmt.Fprintf(os.Stderr, "%*s  = %s\n", e.depth+1, "", showVal(fr.result))
	}
	return fr.result
}

// runFrameRecover runs the frame; a Go panic of the analysed program (targetPanic) unwinding
// through a function that has deferred calls runs them, and if one of them calls recover()
// the function resumes at its recover block and returns normally.
func (e *Exec) runFrameRecover(fr *frame) {
	if fr.fn.Recover == nil {
		e.runFrame(fr)
		return
	}
	depth := e.depth
	func() {
		defer func() {
			r := recover()
			if r == nil {
				return
			}
			tp, ok := r.(targetPanic)
			if !ok || len(fr.defers) == 0 {
				panic(r)
			}
			e.depth = depth
			saved := e.panicking
			e.panicking = &tp
			for i := len(fr.defers) - 1; i >= 0; i-- {
				d := fr.defers[i]
				e.call(fr, fr.pos, d.fn, d.args)
			}
			fr.defers = nil
			recovered := e.panicking == nil
			e.panicking = saved
			if !recovered {
				panic(r)
			}
			fr.recovered = true
		}()
		e.runFrame(fr)
	}()
	if fr.recovered {
		fr.recovered = false
		fr.prev, fr.block = nil, fr.fn.Recover
		e.runFrame(fr)
	}
}

func (e *Exec) runFrame(fr *frame) {
	for fr.block != nil {
		b := fr.block
		if fr.visits == nil {
			fr.visits = map[int]int{}
		}
		fr.visits[b.Index]++
		if e.inInit == 0 && fr.visits[b.Index] > e.unwindLimit(fr.fn) {
			if _, on := e.ghost["hangviolation"]; on {
				panic(hangPanic{fmt.Sprintf("%s block %d", fr.fn, b.Index)})
			}
			panic(pathEnd{fmt.Sprintf("unwind:%s block %d", fr.fn, b.Index)})
		}
		// phis first, simultaneously
		nphi := 0
		var phiVals []Value
		for _, in := range b.Instrs {
			phi, ok := in.(*ssa.Phi)
			if !ok {
				break
			}
			nphi++
			for i, p := range b.Preds {
				if p == fr.prev {
					phiVals = append(phiVals, e.get(fr, phi.Edges[i]))
					break
				}
			}
		}
		for i := 0; i < nphi; i++ {
			fr.env[b.Instrs[i].(*ssa.Phi)] = phiVals[i]
		}
		jumped := false
		for _, in := range b.Instrs[nphi:] {
			e.steps++
			e.curFrame, e.curInstr = fr, in
			if e.visit(fr, in) {
				jumped = true
				break
			}
		}
		if !jumped {
			panic("engine: block fell through: " + fr.fn.String())
		}
	}
}

// visit executes one instruction; returns true if control moved (jump/return).
func (e *Exec) visit(fr *frame, instr ssa.Instruction) bool {
	switch in := instr.(type) {
	case *ssa.DebugRef:
	case *ssa.UnOp:
		fr.env[in] = e.unop(fr, in)
	case *ssa.BinOp:
		fr.env[in] = e.binop(fr, in, in.Op, in.X.Type(), in.Y.Type(), e.get(fr, in.X), e.get(fr, in.Y))
	case *ssa.Call:
		fn, args := e.prepareCall(fr, in, &in.Call)
		fr.env[in] = e.call(fr, in.Pos(), fn, args)
	case *ssa.ChangeInterface:
		fr.env[in] = e.get(fr, in.X)
	case *ssa.ChangeType:
		fr.env[in] = e.get(fr, in.X)
	case *ssa.Convert:
		fr.env[in] = e.conv(fr, in, in.Type(), in.X.Type(), e.get(fr, in.X))
	case *ssa.MakeInterface:
		fr.env[in] = IfaceV{t: in.X.Type(), v: e.get(fr, in.X)}
	case *ssa.Extract:
		fr.env[in] = e.get(fr, in.Tuple).(TupleV)[in.Index]
	case *ssa.Slice:
		fr.env[in] = e.sliceOp(fr, in)
	case *ssa.Return:
		switch len(in.Results) {
		case 0:
		case 1:
			fr.result = e.get(fr, in.Results[0])
		default:
			res := make(TupleV, len(in.Results))
			for i, r := range in.Results {
				res[i] = e.get(fr, r)
			}
			fr.result = res
		}
		fr.block = nil
		return true
	case *ssa.RunDefers:
		for i := len(fr.defers) - 1; i >= 0; i-- {
			d := fr.defers[i]
			e.call(fr, in.Pos(), d.fn, d.args)
		}
		fr.defers = nil
	case *ssa.Panic:
		v := e.get(fr, in.X)
		msg := "panic"
		if iv, ok := v.(IfaceV); ok {
			if s, ok := iv.v.(StrV); ok {
				if c, ok := s.conc(); ok {
					msg = "panic: " + c
				}
			}
		}
		e.tpanic(fr, in, msg)
	case *ssa.Store:
		e.store(fr, in, in.Addr.Type().Underlying().(*types.Pointer).Elem(), e.get(fr, in.Addr).(PtrV), e.get(fr, in.Val))
	case *ssa.If:
		c := e.get(fr, in.Cond).(*Term)
		succ := 1
		if e.decide(c) {
			succ = 0
		}
		fr.prev, fr.block = fr.block, fr.block.Succs[succ]
		return true
	case *ssa.Jump:
		fr.prev, fr.block = fr.block, fr.block.Succs[0]
		return true
	case *ssa.Defer:
		fn, args := e.prepareCall(fr, in, &in.Call)
		fr.defers = append(fr.defers, deferred{fn, args})
	case *ssa.Alloc:
		et := in.Type().Underlying().(*types.Pointer).Elem()
		if in.Heap {
			cell := new(Value)
			*cell = e.zero(et)
			fr.env[in] = mkPtr(cell)
		} else {
			p, _ := fr.env[in].(PtrV).single()
			*p = e.zero(et)
		}
	case *ssa.MakeSlice:
		ln := e.concretizeInt(e.get(fr, in.Len).(*Term), "make-len")
		cp := e.concretizeInt(e.get(fr, in.Cap).(*Term), "make-cap")
		if ln < 0 || cp < ln || cp > 1<<20 {
			e.tpanic(fr, in, "makeslice: len out of range")
		}
		et := in.Type().Underlying().(*types.Slice).Elem()
		d := make([]Value, cp)
		z := e.zero(et)
		for i := range d {
			d[i] = copyVal(z)
		}
		fr.env[in] = SliceV{data: d[:ln]}
	case *ssa.MakeMap:
		mt := in.Type().Underlying().(*types.Map)
		e.mapSeq++
		fr.env[in] = &MapV{kt: mt.Key(), vt: mt.Elem(), id: e.mapSeq}
	case *ssa.Range:
		fr.env[in] = e.rangeIter(fr, in, e.get(fr, in.X))
	case *ssa.Next:
		fr.env[in] = e.iterNext(fr, in, e.get(fr, in.Iter))
	case *ssa.FieldAddr:
		fr.env[in] = e.fieldAddr(fr, in, e.get(fr, in.X).(PtrV), in.Field)
	case *ssa.Field:
		fr.env[in] = copyVal(e.get(fr, in.X).(StructV)[in.Field])
	case *ssa.IndexAddr:
		fr.env[in] = e.indexAddr(fr, in)
	case *ssa.Index:
		fr.env[in] = e.index(fr, in)
	case *ssa.Lookup:
		fr.env[in] = e.lookup(fr, in)
	case *ssa.MapUpdate:
		m := e.get(fr, in.Map).(*MapV)
		if m == nil {
			e.tpanic(fr, in, "assignment to entry in nil map")
		}
		if e.frozen != nil {
			if _, fz := e.ghost[fmt.Sprintf("frozenmap:%d", m.id)]; fz {
				e.noteFrozenWrite(fr, in)
			}
		}
		e.mapUpdate(m, e.get(fr, in.Key), e.get(fr, in.Value))
	case *ssa.TypeAssert:
		fr.env[in] = e.typeAssert(fr, in, e.get(fr, in.X).(IfaceV))
	case *ssa.MakeClosure:
		var b []Value
		for _, x := range in.Bindings {
			b = append(b, e.get(fr, x))
		}
		fr.env[in] = &Closure{in.Fn.(*ssa.Function), b}
	case *ssa.SliceToArrayPointer:
		panic(unsupported("SliceToArrayPointer"))
	default:
		panic(unsupported(fmt.Sprintf("instruction %T", instr)))
	}
	return false
}

func (e *Exec) prepareCall(fr *frame, instr ssa.Instruction, c *ssa.CallCommon) (Value, []Value) {
	v := e.get(fr, c.Value)
	var fn Value
	var args []Value
	if c.Method == nil {
		fn = v
	} else {
		recv := v.(IfaceV)
		if recv.t == nil {
			e.tpanic(fr, instr, "nil interface method call ("+c.Method.Name()+")")
		}
		if o, ok := recv.v.(OpaqueV); ok {
			if gv, ok := o.x.(gojaVal); ok {
				res := e.gojaValueMethod(gv, c.Method.Name())
				return &Closure{fn: nil, env: []Value{res}}, nil
			}
			if rt, ok := o.x.(rtypeV); ok {
				var margs []Value
				for _, a := range c.Args {
					margs = append(margs, e.get(fr, a))
				}
				res := e.rtypeMethod(rt.t, c.Method.Name(), margs)
				return &Closure{fn: nil, env: []Value{res}}, nil
			}
		}
		var f *ssa.Function
		if sel := e.prog.MethodSets.MethodSet(recv.t).Lookup(c.Method.Pkg(), c.Method.Name()); sel != nil {
			f = e.prog.MethodValue(sel)
		}
		if f == nil {
			panic(unsupported(fmt.Sprintf("no method %s on %s", c.Method.Name(), recv.t)))
		}
		fn = f
		args = append(args, recv.v)
	}
	for _, a := range c.Args {
		args = append(args, e.get(fr, a))
	}
	return fn, args
}

// ---- memory ----

// resolve picks one concrete target of a pointer, forking over guards; nil ⇒ panic.
func (e *Exec) resolve(fr *frame, instr ssa.Instruction, p PtrV) PtrTarget {
	if len(p.tgs) == 0 {
		e.tpanic(fr, instr, "nil pointer dereference")
	}
	for i, t := range p.tgs {
		last := i == len(p.tgs)-1
		if last || t.g == nil || e.decide(t.g) {
			if t.isNil() {
				e.tpanic(fr, instr, "nil pointer dereference")
			}
			return t
		}
	}
	panic("unreachable")
}

func (e *Exec) load(fr *frame, instr ssa.Instruction, p PtrV) Value {
	if e.pureDepth > 0 && p.isNil() {
		if u, ok := instr.(*ssa.UnOp); ok {
			return e.zero(u.Type()) // total load in ghost code
		}
	}
	if e.par != nil {
		e.parAccessPtr(p, false)
	}
	if len(p.tgs) > 1 {
		if v, ok := e.mergedLoad(p); ok {
			return v
		}
	}
	t := e.resolve(fr, instr, p)
	if t.p != nil {
		if len(e.pooled) > 0 && e.pooled[t.p] {
			e.softViolation("use after release: load from an object that is in the pool", e.where())
		}
		return copyVal(*t.p)
	}
	// symbolic element
	return e.loadSymIdx(t.arr, t.idx)
}

func (e *Exec) loadSymIdx(arr []Value, idx *Term) Value {
	if idx.IsConst() {
		return copyVal(arr[idx.val])
	}
	// scalar ITE chain
	if _, ok := arr[0].(*Term); ok {
		r := arr[len(arr)-1].(*Term)
		for i := len(arr) - 2; i >= 0; i-- {
			r = e.ts.Ite(e.ts.Eq(idx, e.ts.Const(idx.width, uint64(i))), arr[i].(*Term), r)
		}
		return r
	}
	i := e.concretizeInt(idx, "index")
	return copyVal(arr[i])
}

func (e *Exec) storeInto(T types.Type, addr *Value, v Value) {
	switch u := T.Underlying().(type) {
	case *types.Struct:
		lhs, ok := (*addr).(StructV)
		rhs := v.(StructV)
		if !ok || lhs == nil {
			*addr = copyVal(rhs)
			return
		}
		for i := range lhs {
			e.storeInto(u.Field(i).Type(), &lhs[i], rhs[i])
		}
	case *types.Array:
		lhs, ok := (*addr).(ArrayV)
		rhs := v.(ArrayV)
		if !ok || lhs == nil {
			*addr = copyVal(rhs)
			return
		}
		for i := range lhs {
			e.storeInto(u.Elem(), &lhs[i], rhs[i])
		}
	default:
		*addr = v
	}
}

func (e *Exec) store(fr *frame, instr ssa.Instruction, T types.Type, p PtrV, v Value) {
	if e.pureFork > 0 {
		panic(unsupported("store under a symbolic branch inside ghost (spec/pure) code at " + e.where()))
	}
	if e.par != nil {
		e.parAccessPtr(p, true)
	}
	if len(p.tgs) > 1 {
		if e.mergedStore(T, p, v) {
			return
		}
	}
	t := e.resolve(fr, instr, p)
	if e.frozen != nil && t.p != nil && e.frozen[t.p] {
		e.noteFrozenWrite(fr, instr)
	}
	if t.p != nil {
		if len(e.pooled) > 0 && e.pooled[t.p] {
			e.softViolation("use after release: store to an object that is in the pool", e.where())
		}
		e.storeInto(T, t.p, v)
		return
	}
	if t.idx.IsConst() {
		e.storeInto(T, &t.arr[t.idx.val], v)
		return
	}
	if nv, ok := v.(*Term); ok {
		for i := range t.arr {
			t.arr[i] = e.ts.Ite(e.ts.Eq(t.idx, e.ts.Const(t.idx.width, uint64(i))), nv, t.arr[i].(*Term))
		}
		return
	}
	i := e.concretizeInt(t.idx, "index")
	e.storeInto(T, &t.arr[i], v)
}

func (e *Exec) fieldAddr(fr *frame, instr ssa.Instruction, p PtrV, field int) PtrV {
	if e.pureDepth > 0 && p.isNil() {
		return PtrV{}
	}
	if len(p.tgs) == 0 {
		e.tpanic(fr, instr, "nil pointer dereference (field address)")
	}
	if len(p.tgs) > 1 {
		// map over targets, nil targets stay nil (deref will panic under their guard)
		out := PtrV{}
		for _, t := range p.tgs {
			if t.isNil() {
				out.tgs = append(out.tgs, PtrTarget{g: t.g, p: nil, arr: nil, idx: nil})
				out.nilFieldAddr()
				continue
			}
			if t.p == nil {
				panic(unsupported("fieldAddr through symbolic-index pointer"))
			}
			sv := (*t.p).(StructV)
			out.tgs = append(out.tgs, PtrTarget{g: t.g, p: &sv[field]})
		}
		return out
	}
	t := e.resolve(fr, instr, p)
	if t.p == nil {
		i := e.concretizeInt(t.idx, "index")
		sv := t.arr[i].(StructV)
		return mkPtr(&sv[field])
	}
	sv, ok := (*t.p).(StructV)
	if !ok {
		panic(fmt.Sprintf("engine: fieldAddr on %T in %s", *t.p, fr.fn))
	}
	return mkPtr(&sv[field])
}

func (p *PtrV) nilFieldAddr() {}

func (e *Exec) boundsCheck(fr *frame, instr ssa.Instruction, idx *Term, n int, what string) {
	if e.pureDepth > 0 && !idx.IsConst() {
		return // ghost code: total
	}
	// 0 <= idx < n (signed compare at idx width)
	ok := e.ts.And(e.ts.Cmp(OpSLe, e.ts.Const(idx.width, 0), idx), e.ts.Cmp(OpSLt, idx, e.ts.Const(idx.width, uint64(n))))
	if !e.decide(ok) {
		e.tpanic(fr, instr, "index out of range ("+what+")")
	}
}

func (e *Exec) toInt64Term(v Value, t types.Type) *Term {
	x := v.(*Term)
	if x.width == 64 {
		return x
	}
	_, signed, _ := intWidth(t)
	if signed {
		return e.ts.SExt(x, 64)
	}
	return e.ts.ZExt(x, 64)
}

func (e *Exec) indexAddr(fr *frame, in *ssa.IndexAddr) PtrV {
	x := e.get(fr, in.X)
	idx := e.toInt64Term(e.get(fr, in.Index), in.Index.Type())
	var arr []Value
	switch xv := x.(type) {
	case SliceV:
		arr = xv.data
	case PtrV:
		if len(xv.tgs) > 1 && idx.IsConst() {
			// pointer-to-array with several guarded targets, constant index: element-wise
			out := PtrV{}
			okAll := true
			for _, t := range xv.tgs {
				if t.isNil() || t.p == nil {
					okAll = false
					break
				}
				a, isArr := (*t.p).(ArrayV)
				if !isArr || int(idx.val) >= len(a) {
					okAll = false
					break
				}
				out.tgs = append(out.tgs, PtrTarget{g: t.g, p: &a[idx.val]})
			}
			if okAll {
				return out
			}
		}
		t := e.resolve(fr, in, xv)
		if t.p == nil {
			panic(unsupported("indexAddr through symbolic-index pointer"))
		}
		arr = []Value((*t.p).(ArrayV))
	default:
		panic(fmt.Sprintf("engine: indexAddr on %T", x))
	}
	e.boundsCheck(fr, in, idx, len(arr), "IndexAddr")
	if idx.IsConst() {
		return mkPtr(&arr[idx.val])
	}
	if len(arr) > 0 {
		if _, ok := arr[0].(*Term); ok && len(arr) <= 512 {
			return PtrV{tgs: []PtrTarget{{arr: arr, idx: idx}}}
		}
	}
	if len(arr) <= 256 {
		// symbolic index into an array of composites: a guarded target set over the elements
		// whose index is not excluded by the index variable's known domain
		var tgs []PtrTarget
		for i := range arr {
			g := e.ts.Eq(idx, e.ts.Const(idx.width, uint64(i)))
			if v, ok := e.domainDecides(g); ok && !v {
				continue
			}
			if v, ok := e.lookupKnown(g); ok && !v {
				continue
			}
			tgs = append(tgs, PtrTarget{g: g, p: &arr[i]})
		}
		if len(tgs) == 1 {
			return mkPtr(tgs[0].p)
		}
		if len(tgs) > 1 {
			return PtrV{tgs: tgs}
		}
	}
	i := e.concretizeInt(idx, "index")
	return mkPtr(&arr[i])
}

func (e *Exec) index(fr *frame, in *ssa.Index) Value {
	x := e.get(fr, in.X)
	idx := e.toInt64Term(e.get(fr, in.Index), in.Index.Type())
	switch xv := x.(type) {
	case ArrayV:
		e.boundsCheck(fr, in, idx, len(xv), "Index")
		return e.loadSymIdx([]Value(xv), idx)
	case StrV:
		e.boundsCheck(fr, in, idx, len(xv.b), "string index")
		return e.strAt(xv, idx)
	}
	panic(fmt.Sprintf("engine: index on %T", x))
}

func (e *Exec) strAt(s StrV, idx *Term) *Term {
	if idx.IsConst() {
		return s.b[idx.val]
	}
	r := s.b[len(s.b)-1]
	for i := len(s.b) - 2; i >= 0; i-- {
		r = e.ts.Ite(e.ts.Eq(idx, e.ts.Const(idx.width, uint64(i))), s.b[i], r)
	}
	return r
}

func (e *Exec) sliceOp(fr *frame, in *ssa.Slice) Value {
	x := e.get(fr, in.X)
	var lo, hi, mx = -1, -1, -1
	cz := func(v ssa.Value, what string) int {
		return int(e.concretizeInt(e.toInt64Term(e.get(fr, v), v.Type()), what))
	}
	if in.Low != nil {
		lo = cz(in.Low, "slice-lo")
	}
	if in.High != nil {
		hi = cz(in.High, "slice-hi")
	}
	if in.Max != nil {
		mx = cz(in.Max, "slice-max")
	}
	switch xv := x.(type) {
	case StrV:
		if lo < 0 {
			lo = 0
		}
		if hi < 0 {
			hi = len(xv.b)
		}
		if lo > hi || hi > len(xv.b) {
			e.tpanic(fr, in, fmt.Sprintf("slice bounds out of range [%d:%d] with length %d", lo, hi, len(xv.b)))
		}
		return StrV{xv.b[lo:hi]}
	case SliceV:
		return e.sliceData(fr, in, xv.data, xv.data == nil, lo, hi, mx)
	case PtrV:
		t := e.resolve(fr, in, xv)
		arr := []Value((*t.p).(ArrayV))
		return e.sliceData(fr, in, arr, false, lo, hi, mx)
	}
	panic(fmt.Sprintf("engine: slice of %T", x))
}

func (e *Exec) sliceData(fr *frame, in ssa.Instruction, d []Value, isNil bool, lo, hi, mx int) Value {
	if lo < 0 {
		lo = 0
	}
	if hi < 0 {
		hi = len(d)
	}
	if mx < 0 {
		mx = cap(d)
	}
	if lo > hi || hi > mx || mx > cap(d) {
		e.tpanic(fr, in, fmt.Sprintf("slice bounds out of range [%d:%d:%d] with capacity %d", lo, hi, mx, cap(d)))
	}
	if isNil {
		return SliceV{}
	}
	return SliceV{data: d[lo:hi:mx]}
}

// ---- operators ----

func (e *Exec) unop(fr *frame, in *ssa.UnOp) Value {
	x := e.get(fr, in.X)
	switch in.Op {
	case token.MUL:
		return e.load(fr, in, x.(PtrV))
	case token.SUB:
		switch xv := x.(type) {
		case *Term:
			return e.ts.Neg(xv)
		case FloatV:
			return FloatV{-xv.f}
		}
	case token.NOT:
		return e.ts.Not(x.(*Term))
	case token.XOR:
		return e.ts.BNot(x.(*Term))
	case token.ARROW:
		panic(unsupported("channel receive"))
	}
	panic(unsupported("unop " + in.Op.String()))
}

func (e *Exec) binop(fr *frame, instr ssa.Instruction, op token.Token, tx, ty types.Type, x, y Value) Value {
	ts := e.ts
	switch xv := x.(type) {
	case *Term:
		yv := y.(*Term)
		if xv.width == 0 { // bool
			switch op {
			case token.EQL:
				return ts.Eq(xv, yv)
			case token.NEQ:
				return ts.Ne(xv, yv)
			case token.AND:
				return ts.And(xv, yv)
			case token.OR:
				return ts.Or(xv, yv)
			}
			panic(unsupported("bool binop " + op.String()))
		}
		_, signed, _ := intWidth(tx)
		switch op {
		case token.ADD:
			return ts.Bin(OpAdd, xv, yv)
		case token.SUB:
			return ts.Bin(OpSub, xv, yv)
		case token.MUL:
			return ts.Bin(OpMul, xv, yv)
		case token.QUO, token.REM:
			if e.pureDepth == 0 && !e.decide(ts.Ne(yv, ts.Const(yv.width, 0))) {
				e.tpanic(fr, instr, "integer divide by zero")
			}
			if signed {
				if op == token.QUO {
					return ts.Bin(OpSDiv, xv, yv)
				}
				return ts.Bin(OpSRem, xv, yv)
			}
			if op == token.QUO {
				return ts.Bin(OpUDiv, xv, yv)
			}
			return ts.Bin(OpURem, xv, yv)
		case token.AND:
			return ts.Bin(OpBAnd, xv, yv)
		case token.OR:
			return ts.Bin(OpBOr, xv, yv)
		case token.XOR:
			return ts.Bin(OpBXor, xv, yv)
		case token.AND_NOT:
			return ts.Bin(OpBAnd, xv, ts.BNot(yv))
		case token.SHL, token.SHR:
			// shift count: bring to x's width with saturation
			var cnt *Term
			w := xv.width
			if yv.width == w {
				cnt = yv
			} else if yv.width < w {
				cnt = ts.ZExt(yv, w)
			} else {
				big := ts.Cmp(OpULe, ts.Const(yv.width, uint64(w)), yv)
				cnt = ts.Ite(big, ts.Const(w, uint64(w)), ts.Extract(yv, w-1, 0))
			}
			if op == token.SHL {
				return ts.Bin(OpShl, xv, cnt)
			}
			if signed {
				return ts.Bin(OpAShr, xv, cnt)
			}
			return ts.Bin(OpLShr, xv, cnt)
		case token.EQL:
			return ts.Eq(xv, yv)
		case token.NEQ:
			return ts.Ne(xv, yv)
		case token.LSS:
			if signed {
				return ts.Cmp(OpSLt, xv, yv)
			}
			return ts.Cmp(OpULt, xv, yv)
		case token.LEQ:
			if signed {
				return ts.Cmp(OpSLe, xv, yv)
			}
			return ts.Cmp(OpULe, xv, yv)
		case token.GTR:
			if signed {
				return ts.Cmp(OpSLt, yv, xv)
			}
			return ts.Cmp(OpULt, yv, xv)
		case token.GEQ:
			if signed {
				return ts.Cmp(OpSLe, yv, xv)
			}
			return ts.Cmp(OpULe, yv, xv)
		}
	case FloatV:
		yv := y.(FloatV)
		switch op {
		case token.ADD:
			return FloatV{xv.f + yv.f}
		case token.SUB:
			return FloatV{xv.f - yv.f}
		case token.MUL:
			return FloatV{xv.f * yv.f}
		case token.QUO:
			return FloatV{xv.f / yv.f}
		case token.EQL:
			return ts.Bool(xv.f == yv.f)
		case token.NEQ:
			return ts.Bool(xv.f != yv.f)
		case token.LSS:
			return ts.Bool(xv.f < yv.f)
		case token.LEQ:
			return ts.Bool(xv.f <= yv.f)
		case token.GTR:
			return ts.Bool(xv.f > yv.f)
		case token.GEQ:
			return ts.Bool(xv.f >= yv.f)
		}
	case StrV:
		yv := y.(StrV)
		switch op {
		case token.ADD:
			b := make([]*Term, 0, len(xv.b)+len(yv.b))
			b = append(b, xv.b...)
			b = append(b, yv.b...)
			return StrV{b}
		case token.EQL:
			return e.strEq(xv, yv)
		case token.NEQ:
			return ts.Not(e.strEq(xv, yv))
		case token.LSS:
			return e.strLess(xv, yv, false)
		case token.LEQ:
			return e.strLess(xv, yv, true)
		case token.GTR:
			return e.strLess(yv, xv, false)
		case token.GEQ:
			return e.strLess(yv, xv, true)
		}
	}
	switch op {
	case token.EQL:
		return e.equal(tx, x, y)
	case token.NEQ:
		return ts.Not(e.equal(tx, x, y))
	}
	panic(unsupported(fmt.Sprintf("binop %s on %T", op, x)))
}

func (e *Exec) strEq(a, b StrV) *Term {
	if len(a.b) != len(b.b) {
		return e.ts.False
	}
	r := e.ts.True
	for i := range a.b {
		r = e.ts.And(r, e.ts.Eq(a.b[i], b.b[i]))
		if r.IsFalse() {
			return r
		}
	}
	return r
}

// lexicographic a < b (or <= if orEq)
func (e *Exec) strLess(a, b StrV, orEq bool) *Term {
	n := len(a.b)
	if len(b.b) < n {
		n = len(b.b)
	}
	// result for the common-prefix-equal case
	var r *Term
	if len(a.b) < len(b.b) {
		r = e.ts.True
	} else if len(a.b) == len(b.b) {
		r = e.ts.Bool(orEq)
	} else {
		r = e.ts.False
	}
	for i := n - 1; i >= 0; i-- {
		lt := e.ts.Cmp(OpULt, a.b[i], b.b[i])
		eq := e.ts.Eq(a.b[i], b.b[i])
		r = e.ts.Or(lt, e.ts.And(eq, r))
	}
	return r
}

func sameTarget(a, b PtrTarget) (bool, *Term, bool) {
	// returns (definitelySameOrDiff known, idxEq term if symbolic, same)
	if a.isNil() || b.isNil() {
		return true, nil, a.isNil() && b.isNil()
	}
	if a.p != nil && b.p != nil {
		return true, nil, a.p == b.p
	}
	return false, nil, false
}

func (e *Exec) ptrEq(a, b PtrV) *Term {
	ts := e.ts
	at, bt := a.tgs, b.tgs
	if len(at) == 0 {
		at = []PtrTarget{{}}
	}
	if len(bt) == 0 {
		bt = []PtrTarget{{}}
	}
	r := ts.False
	for _, x := range at {
		for _, y := range bt {
			gx, gy := x.g, y.g
			if gx == nil {
				gx = ts.True
			}
			if gy == nil {
				gy = ts.True
			}
			var same *Term
			switch {
			case x.isNil() || y.isNil():
				same = ts.Bool(x.isNil() && y.isNil())
			case x.p != nil && y.p != nil:
				same = ts.Bool(x.p == y.p)
			case x.p == nil && y.p == nil:
				if len(x.arr) > 0 && len(y.arr) > 0 && &x.arr[0] == &y.arr[0] {
					same = ts.Eq(x.idx, y.idx)
				} else {
					same = ts.False
				}
			default:
				// one concrete element pointer, one symbolic index
				c, s := x, y
				if c.p == nil {
					c, s = y, x
				}
				same = ts.False
				for i := range s.arr {
					if &s.arr[i] == c.p {
						same = ts.Eq(s.idx, ts.Const(s.idx.width, uint64(i)))
					}
				}
			}
			r = ts.Or(r, ts.And(ts.And(gx, gy), same))
		}
	}
	return r
}

func (e *Exec) equal(t types.Type, x, y Value) *Term {
	ts := e.ts
	switch xv := x.(type) {
	case nil:
		return ts.Bool(y == nil)
	case *Term:
		return ts.Eq(xv, y.(*Term))
	case FloatV:
		return ts.Bool(xv.f == y.(FloatV).f)
	case StrV:
		return e.strEq(xv, y.(StrV))
	case PtrV:
		return e.ptrEq(xv, y.(PtrV))
	case IfaceV:
		yv := y.(IfaceV)
		if xv.t == nil || yv.t == nil {
			return ts.Bool(xv.t == nil && yv.t == nil)
		}
		if !types.Identical(xv.t, yv.t) {
			return ts.False
		}
		return e.equal(xv.t, xv.v, yv.v)
	case StructV:
		yv := y.(StructV)
		r := ts.True
		st := t.Underlying().(*types.Struct)
		for i := range xv {
			r = ts.And(r, e.equal(st.Field(i).Type(), xv[i], yv[i]))
		}
		return r
	case ArrayV:
		yv := y.(ArrayV)
		r := ts.True
		at := t.Underlying().(*types.Array)
		for i := range xv {
			r = ts.And(r, e.equal(at.Elem(), xv[i], yv[i]))
		}
		return r
	case OpaqueV:
		if a, ok := xv.x.(rtypeV); ok {
			if b, ok := y.(OpaqueV).x.(rtypeV); ok {
				return ts.Bool(types.Identical(a.t, b.t))
			}
		}
		return ts.False
	case *MapV:
		return ts.Bool(xv == y.(*MapV)) // only m == nil is legal Go
	case SliceV:
		yv := y.(SliceV)
		return ts.Bool((xv.data == nil) == (yv.data == nil)) // only s == nil is legal Go
	case *Closure:
		yc, _ := y.(*Closure)
		return ts.Bool((xv == nil) == (yc == nil && !isFuncVal(y)))
	case *ssa.Function:
		return ts.Bool(isFuncVal(y))
	}
	panic(unsupported(fmt.Sprintf("equality on %T", x)))
}

func isFuncVal(v Value) bool {
	switch f := v.(type) {
	case *ssa.Function:
		return f != nil
	case *Closure:
		return f != nil
	}
	return false
}

func (e *Exec) conv(fr *frame, instr ssa.Instruction, dst, src types.Type, x Value) Value {
	ts := e.ts
	du, su := dst.Underlying(), src.Underlying()
	// pointer <-> unsafe.Pointer
	if _, ok := x.(PtrV); ok {
		return x
	}
	if dw, _, ok := intWidth(dst); ok && dw > 0 {
		switch xv := x.(type) {
		case *Term:
			_, ssigned, _ := intWidth(src)
			if xv.width == dw {
				return xv
			}
			if xv.width > dw {
				return ts.Extract(xv, dw-1, 0)
			}
			if ssigned {
				return ts.SExt(xv, dw)
			}
			return ts.ZExt(xv, dw)
		case FloatV:
			_, dsigned, _ := intWidth(dst)
			if dsigned {
				return ts.Const(dw, uint64(int64(xv.f)))
			}
			return ts.Const(dw, uint64(xv.f))
		}
	}
	if isFloat(dst) {
		switch xv := x.(type) {
		case FloatV:
			if b := du.(*types.Basic); b.Kind() == types.Float32 {
				return FloatV{float64(float32(xv.f))}
			}
			return xv
		case *Term:
			if !xv.IsConst() {
				panic(unsupported("symbolic int -> float conversion"))
			}
			_, ssigned, _ := intWidth(src)
			if ssigned {
				return FloatV{float64(xv.SVal())}
			}
			return FloatV{float64(xv.val)}
		}
	}
	if isString(dst) {
		switch xv := x.(type) {
		case StrV:
			return xv
		case SliceV:
			// []byte or []rune -> string
			el := su.(*types.Slice).Elem()
			if w, _, _ := intWidth(el); w == 8 {
				b, _ := bytesOf(xv)
				return StrV{b}
			}
			// []rune -> string: UTF-8 encode every rune (symbolic runes fork on the size class)
			var out []*Term
			for _, r := range xv.data {
				t := r.(*Term)
				if t.IsConst() {
					out = append(out, e.strConst(string(rune(t.SVal()))).b...)
					continue
				}
				out = append(out, e.runeToString(t, el).(StrV).b...)
			}
			return StrV{out}
		case *Term:
			// integer (rune) -> string
			return e.runeToString(xv, src)
		}
	}
	if sl, ok := du.(*types.Slice); ok {
		if s, ok := x.(StrV); ok {
			if w, _, _ := intWidth(sl.Elem()); w == 8 {
				d := make([]Value, len(s.b))
				for i, t := range s.b {
					d[i] = t
				}
				return SliceV{data: d}
			}
			// string -> []rune via decoding
			var out []Value
			rest := s.b
			for len(rest) > 0 {
				r, sz := e.decodeRune(rest)
				out = append(out, r)
				rest = rest[sz:]
			}
			if out == nil {
				out = []Value{}
			}
			return SliceV{data: out}
		}
		if s, ok := x.(SliceV); ok {
			return s
		}
	}
	panic(unsupported(fmt.Sprintf("conversion %s -> %s (%T)", src, dst, x)))
}

func (e *Exec) runeToString(r *Term, src types.Type) Value {
	ts := e.ts
	// encode rune as UTF-8 with forks on size class
	r32 := r
	if r.width < 32 {
		_, s, _ := intWidth(src)
		if s {
			r32 = ts.SExt(r, 32)
		} else {
			r32 = ts.ZExt(r, 32)
		}
	} else if r.width > 32 {
		// out-of-range values become U+FFFD; fork on fits
		fits := ts.Cmp(OpULe, r, ts.Const(r.width, 0x10FFFF))
		if !e.decide(fits) {
			return e.strConst("�")
		}
		r32 = ts.Extract(r, 31, 0)
	}
	c := func(v uint64) *Term { return ts.Const(32, v) }
	b8 := func(t *Term) *Term { return ts.Extract(t, 7, 0) }
	if e.decide(ts.Cmp(OpULt, r32, c(0x80))) {
		return StrV{[]*Term{b8(r32)}}
	}
	if e.decide(ts.Cmp(OpULt, r32, c(0x800))) {
		return StrV{[]*Term{
			b8(ts.Bin(OpBOr, c(0xC0), ts.Bin(OpLShr, r32, c(6)))),
			b8(ts.Bin(OpBOr, c(0x80), ts.Bin(OpBAnd, r32, c(0x3F)))),
		}}
	}
	bad := ts.Or(ts.Cmp(OpULt, c(0x10FFFF), r32), ts.And(ts.Cmp(OpULe, c(0xD800), r32), ts.Cmp(OpULe, r32, c(0xDFFF))))
	if e.decide(bad) {
		return e.strConst("�")
	}
	if e.decide(ts.Cmp(OpULt, r32, c(0x10000))) {
		return StrV{[]*Term{
			b8(ts.Bin(OpBOr, c(0xE0), ts.Bin(OpLShr, r32, c(12)))),
			b8(ts.Bin(OpBOr, c(0x80), ts.Bin(OpBAnd, ts.Bin(OpLShr, r32, c(6)), c(0x3F)))),
			b8(ts.Bin(OpBOr, c(0x80), ts.Bin(OpBAnd, r32, c(0x3F)))),
		}}
	}
	return StrV{[]*Term{
		b8(ts.Bin(OpBOr, c(0xF0), ts.Bin(OpLShr, r32, c(18)))),
		b8(ts.Bin(OpBOr, c(0x80), ts.Bin(OpBAnd, ts.Bin(OpLShr, r32, c(12)), c(0x3F)))),
		b8(ts.Bin(OpBOr, c(0x80), ts.Bin(OpBAnd, ts.Bin(OpLShr, r32, c(6)), c(0x3F)))),
		b8(ts.Bin(OpBOr, c(0x80), ts.Bin(OpBAnd, r32, c(0x3F)))),
	}}
}

// decodeRune decodes the first UTF-8 sequence of b (len(b) > 0), forking on byte classes.
// Returns the rune (32-bit term) and its width.
func (e *Exec) decodeRune(b []*Term) (*Term, int) {
	ts := e.ts
	c8 := func(v uint64) *Term { return ts.Const(8, v) }
	z := func(t *Term) *Term { return ts.ZExt(t, 32) }
	c := func(v uint64) *Term { return ts.Const(32, v) }
	inr := func(t *Term, lo, hi uint64) *Term {
		return ts.And(ts.Cmp(OpULe, c8(lo), t), ts.Cmp(OpULe, t, c8(hi)))
	}
	bad := c(0xFFFD)
	b0 := b[0]
	if e.decide(ts.Cmp(OpULt, b0, c8(0x80))) {
		return z(b0), 1
	}
	cont := func(i int) *Term { return ts.Bin(OpBAnd, z(b[i]), c(0x3F)) }
	if e.decide(inr(b0, 0xC2, 0xDF)) {
		if len(b) < 2 || !e.decide(inr(b[1], 0x80, 0xBF)) {
			return bad, 1
		}
		r := ts.Bin(OpBOr, ts.Bin(OpShl, ts.Bin(OpBAnd, z(b0), c(0x1F)), c(6)), cont(1))
		return r, 2
	}
	if e.decide(inr(b0, 0xE0, 0xEF)) {
		if len(b) < 2 {
			return bad, 1
		}
		// second byte range depends on b0
		lo := ts.Ite(ts.Eq(b0, c8(0xE0)), c8(0xA0), c8(0x80))
		hi := ts.Ite(ts.Eq(b0, c8(0xED)), c8(0x9F), c8(0xBF))
		ok1 := ts.And(ts.Cmp(OpULe, lo, b[1]), ts.Cmp(OpULe, b[1], hi))
		if !e.decide(ok1) {
			return bad, 1
		}
		if len(b) < 3 || !e.decide(inr(b[2], 0x80, 0xBF)) {
			return bad, 1
		}
		r := ts.Bin(OpBOr, ts.Bin(OpBOr,
			ts.Bin(OpShl, ts.Bin(OpBAnd, z(b0), c(0x0F)), c(12)),
			ts.Bin(OpShl, cont(1), c(6))), cont(2))
		return r, 3
	}
	if e.decide(inr(b0, 0xF0, 0xF4)) {
		if len(b) < 2 {
			return bad, 1
		}
		lo := ts.Ite(ts.Eq(b0, c8(0xF0)), c8(0x90), c8(0x80))
		hi := ts.Ite(ts.Eq(b0, c8(0xF4)), c8(0x8F), c8(0xBF))
		ok1 := ts.And(ts.Cmp(OpULe, lo, b[1]), ts.Cmp(OpULe, b[1], hi))
		if !e.decide(ok1) {
			return bad, 1
		}
		if len(b) < 3 || !e.decide(inr(b[2], 0x80, 0xBF)) {
			return bad, 1
		}
		if len(b) < 4 || !e.decide(inr(b[3], 0x80, 0xBF)) {
			return bad, 1
		}
		r := ts.Bin(OpBOr, ts.Bin(OpBOr, ts.Bin(OpBOr,
			ts.Bin(OpShl, ts.Bin(OpBAnd, z(b0), c(0x07)), c(18)),
			ts.Bin(OpShl, cont(1), c(12))),
			ts.Bin(OpShl, cont(2), c(6))), cont(3))
		return r, 4
	}
	return bad, 1
}

func (e *Exec) typeAssert(fr *frame, in *ssa.TypeAssert, x IfaceV) Value {
	ok := false
	var v Value
	if x.t != nil {
		if it, isI := in.AssertedType.Underlying().(*types.Interface); isI {
			ok = types.Implements(x.t, it)
			v = x
		} else {
			ok = types.Identical(x.t, in.AssertedType)
			v = x.v
		}
	}
	if in.CommaOk {
		if !ok {
			v = e.zero(in.AssertedType)
		}
		return TupleV{v, e.ts.Bool(ok)}
	}
	if !ok {
		have := "nil"
		if x.t != nil {
			have = x.t.String()
		}
		e.tpanic(fr, in, "interface conversion: "+have+" is not "+in.AssertedType.String())
	}
	return v
}

// ---- maps ----

func (e *Exec) mapFind(m *MapV, key Value) int {
	if m == nil {
		return -1
	}
	for i, k := range m.keys {
		if k == nil {
			continue
		}
		c := e.equal(m.kt, k, key)
		if c.IsFalse() {
			continue
		}
		if e.decide(c) {
			return i
		}
	}
	return -1
}

func (e *Exec) mapUpdate(m *MapV, key, val Value) {
	e.parAccessMap(m, true)
	i := e.mapFind(m, key)
	if i >= 0 {
		m.vals[i] = copyVal(val)
		return
	}
	m.keys = append(m.keys, copyVal(key))
	m.vals = append(m.vals, copyVal(val))
}

func (e *Exec) lookup(fr *frame, in *ssa.Lookup) Value {
	x := e.get(fr, in.X)
	if s, ok := x.(StrV); ok {
		idx := e.toInt64Term(e.get(fr, in.Index), in.Index.Type())
		e.boundsCheck(fr, in, idx, len(s.b), "string index")
		return e.strAt(s, idx)
	}
	m := x.(*MapV)
	e.parAccessMap(m, false)
	i := e.mapFind(m, e.get(fr, in.Index))
	var v Value
	if i >= 0 {
		v = copyVal(m.vals[i])
	} else {
		v = e.zero(in.X.Type().Underlying().(*types.Map).Elem())
	}
	if in.CommaOk {
		return TupleV{v, e.ts.Bool(i >= 0)}
	}
	return v
}

type MapIter struct {
	m     *MapV
	order []int
	pos   int
}

type StrIter struct {
	s   StrV
	pos int
}

func (e *Exec) rangeIter(fr *frame, in *ssa.Range, x Value) Value {
	switch xv := x.(type) {
	case StrV:
		return &StrIter{s: xv}
	case *MapV:
		it := &MapIter{m: xv}
		e.parAccessMap(xv, false)
		n := 0
		if xv != nil {
			n = len(xv.keys)
		}
		it.order = e.mapOrder(n)
		return it
	}
	panic(unsupported(fmt.Sprintf("range over %T", x)))
}

func (e *Exec) mapOrder(n int) []int {
	order := make([]int, n)
	for i := range order {
		order[i] = i
	}
	if n < 2 || e.mapOrderMode == 0 || e.inInit > 0 {
		return order
	}
	if n <= 3 && e.mapOrderMode == 2 {
		// all permutations: pick each position by choice
		avail := append([]int(nil), order...)
		for i := 0; i < n-1; i++ {
			k := e.choose(len(avail), "maporder")
			order[i] = avail[k]
			avail = append(avail[:k], avail[k+1:]...)
		}
		order[n-1] = avail[0]
		return order
	}
	if e.choose(2, "maporder") == 1 {
		for i := range order {
			order[i] = n - 1 - i
		}
	}
	return order
}

func (e *Exec) iterNext(fr *frame, in *ssa.Next, itv Value) Value {
	switch it := itv.(type) {
	case *StrIter:
		if it.pos >= len(it.s.b) {
			return TupleV{e.ts.False, e.ts.Const(64, 0), e.ts.Const(32, 0)}
		}
		r, sz := e.decodeRune(it.s.b[it.pos:])
		p := it.pos
		it.pos += sz
		return TupleV{e.ts.True, e.ts.Const(64, uint64(p)), r}
	case *MapIter:
		for it.pos < len(it.order) {
			i := it.order[it.pos]
			it.pos++
			if i < len(it.m.keys) && it.m.keys[i] != nil {
				return TupleV{e.ts.True, copyVal(it.m.keys[i]), copyVal(it.m.vals[i])}
			}
		}
		tt := in.Type().(*types.Tuple)
		return TupleV{e.ts.False, e.zero(tt.At(1).Type()), e.zero(tt.At(2).Type())}
	}
	panic(unsupported(fmt.Sprintf("next on %T", itv)))
}

// ---- builtins ----

func (e *Exec) callBuiltin(fr *frame, pos token.Pos, fn *ssa.Builtin, args []Value) Value {
	ts := e.ts
	switch fn.Name() {
	case "len":
		switch x := args[0].(type) {
		case StrV:
			return ts.Const(64, uint64(len(x.b)))
		case SliceV:
			return ts.Const(64, uint64(len(x.data)))
		case ArrayV:
			return ts.Const(64, uint64(len(x)))
		case *MapV:
			if x == nil {
				return ts.Const(64, 0)
			}
			e.parAccessMap(x, false)
			n := 0
			for _, k := range x.keys {
				if k != nil {
					n++
				}
			}
			return ts.Const(64, uint64(n))
		case PtrV: // *array
			t := e.resolve(fr, nil, x)
			return ts.Const(64, uint64(len((*t.p).(ArrayV))))
		}
	case "cap":
		switch x := args[0].(type) {
		case SliceV:
			return ts.Const(64, uint64(cap(x.data)))
		case ArrayV:
			return ts.Const(64, uint64(len(x)))
		}
	case "append":
		s := args[0].(SliceV)
		var add []Value
		switch a := args[1].(type) {
		case SliceV:
			add = a.data
		case StrV:
			for _, t := range a.b {
				add = append(add, t)
			}
		}
		if len(add) == 0 {
			return s
		}
		n := len(s.data)
		if sa, ok := args[1].(SliceV); ok {
			e.parAccessCells(sa.data, false)
		}
		if n+len(add) <= cap(s.data) {
			d := s.data[:n+len(add)]
			e.parAccessCells(d[n:], true)
			for i, v := range add {
				d[n+i] = copyVal(v)
			}
			return SliceV{data: d}
		}
		nc := cap(s.data) * 2
		if nc < n+len(add) {
			nc = n + len(add)
		}
		e.parAccessCells(s.data, false)
		d := make([]Value, n+len(add), nc)
		for i := 0; i < n; i++ {
			d[i] = s.data[i] // moved, old backing keeps its own copies for scalars; structs copied
			d[i] = copyVal(s.data[i])
		}
		for i, v := range add {
			d[n+i] = copyVal(v)
		}
		// fill the spare capacity with zero-like values lazily: use copies of the last element's zero
		if nc > len(d) {
			et := fn.Type().(*types.Signature).Results().At(0).Type().Underlying().(*types.Slice).Elem()
			full := d[:nc]
			z := e.zero(et)
			for i := len(d); i < nc; i++ {
				full[i] = copyVal(z)
			}
		}
		return SliceV{data: d}
	case "copy":
		dst := args[0].(SliceV)
		var src []Value
		switch a := args[1].(type) {
		case SliceV:
			src = a.data
		case StrV:
			for _, t := range a.b {
				src = append(src, t)
			}
		}
		n := len(dst.data)
		if len(src) < n {
			n = len(src)
		}
		e.parAccessCells(src[:n], false)
		e.parAccessCells(dst.data[:n], true)
		// handle overlap like memmove
		tmp := make([]Value, n)
		for i := 0; i < n; i++ {
			tmp[i] = copyVal(src[i])
		}
		copy(dst.data, tmp)
		return ts.Const(64, uint64(n))
	case "delete":
		m := args[0].(*MapV)
		e.parAccessMap(m, true)
		i := e.mapFind(m, args[1])
		if i >= 0 {
			m.keys[i], m.vals[i] = nil, nil // tombstone (keeps range iterators valid)
		}
		return nil
	case "print", "println":
		return nil
	case "recover":
		if e.panicking == nil {
			return IfaceV{}
		}
		msg := e.panicking.msg
		e.panicking = nil
		return IfaceV{t: types.Typ[types.String], v: e.strConst(msg)}
	case "ssa:wrapnilchk":
		p := args[0].(PtrV)
		if p.isNil() {
			panic(targetPanic{msg: "value method called through nil pointer", pos: e.posStr(pos)})
		}
		return p
	case "min", "max":
		r := args[0].(*Term)
		sig := fn.Type().(*types.Signature)
		_, signed, _ := intWidth(sig.Params().At(0).Type())
		for _, a := range args[1:] {
			at := a.(*Term)
			var lt *Term
			if signed {
				lt = ts.Cmp(OpSLt, at, r)
			} else {
				lt = ts.Cmp(OpULt, at, r)
			}
			if fn.Name() == "min" {
				r = ts.Ite(lt, at, r)
			} else {
				r = ts.Ite(lt, r, at)
			}
		}
		return r
	case "clear":
		switch x := args[0].(type) {
		case *MapV:
			if x != nil {
				for i := range x.keys {
					x.keys[i], x.vals[i] = nil, nil
				}
			}
		case SliceV:
			et := fn.Type().(*types.Signature).Params().At(0).Type().Underlying().(*types.Slice).Elem()
			z := e.zero(et)
			for i := range x.data {
				x.data[i] = copyVal(z)
			}
		}
		return nil
	}
	panic(unsupported("builtin " + fn.Name() + fmt.Sprintf(" on %T", args[0])))
}

func (e *Exec) redirectTarget(name string) *ssa.Function {
	if f, ok := e.redirCache[name]; ok {
		return f
	}
	var f *ssa.Function
	if e.entry != nil {
		f = e.entry.Pkg.Func(name)
	}
	if f == nil {
		// any package of the module under analysis (harness helpers overlaid elsewhere)
		for _, p := range e.prog.AllPackages() {
			if isRepoPkg(p) {
				if g := p.Func(name); g != nil {
					f = g
					break
				}
			}
		}
	}
	if f == nil {
		panic(unsupported("redirect target not found: " + name))
	}
	if e.redirCache == nil {
		e.redirCache = map[string]*ssa.Function{}
	}
	e.redirCache[name] = f
	return f
}

var callTrace = os.Getenv("GOSMT_CALLTRACE")
