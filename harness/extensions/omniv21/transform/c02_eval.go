package transform

import (
	"github.com/jf-tech/omniparser/idr"
	"github.com/jf-tech/omniparser/transformctx"
	zz "github.com/jf-tech/omniparser/zzverif"
)

// ---- reference evaluator written from doc/transforms.md, doc/xpath.md and the property
// text; works on the raw (unvalidated) declarations, no cache, templates inlined on the fly,
// arrays in declaration order. The real xpath engine is used as a library (MatchAll). ----

type zzSpec struct {
	templates map[string]*Decl
	ext       map[string]string
}

func zzTrim(s string) string {
	lo, hi := 0, len(s)
	for lo < hi && (s[lo] == ' ' || s[lo] == '\t' || s[lo] == '\n' || s[lo] == '\r') {
		lo++
	}
	for hi > lo && (s[hi-1] == ' ' || s[hi-1] == '\t' || s[hi-1] == '\n' || s[hi-1] == '\r') {
		hi--
	}
	return s[lo:hi]
}

func zzParseInt(s string) (int64, bool) {
	if len(s) == 0 {
		return 0, false
	}
	var v int64
	for i := 0; i < len(s); i++ {
		if s[i] < '0' || s[i] > '9' {
			return 0, false
		}
		v = v*10 + int64(s[i]-'0')
	}
	return v, true
}

func zzParseBool(s string) (bool, bool) {
	switch s {
	case "1", "t", "T", "true", "TRUE", "True":
		return true, true
	case "0", "f", "F", "false", "FALSE", "False":
		return false, true
	}
	return false, false
}

func zzIsEmpty(v interface{}) bool {
	switch x := v.(type) {
	case nil:
		return true
	case string:
		return x == ""
	case map[string]interface{}:
		return len(x) == 0
	case []interface{}:
		return len(x) == 0
	}
	return false
}

// normalize: trim, cast, omit. Returns (value, omitted, failed).
func (sp *zzSpec) normalize(d *Decl, v interface{}) (interface{}, bool, bool) {
	if s, ok := v.(string); ok && !d.NoTrim {
		v = zzTrim(s)
	}
	if v != nil && d.ResultType != nil {
		switch x := v.(type) {
		case string:
			switch *d.ResultType {
			case resultTypeInt:
				i, ok := zzParseInt(x)
				if !ok {
					return nil, false, true
				}
				v = i
			case resultTypeBoolean:
				b, ok := zzParseBool(x)
				if !ok {
					return nil, false, true
				}
				v = b
			case resultTypeString:
			default:
				zz.Assume(false) // float casts of symbolic text are outside this harness
			}
		default:
			// casting a container is a per-record failure
			if _, isMap := v.(map[string]interface{}); isMap {
				return nil, false, true
			}
			if _, isArr := v.([]interface{}); isArr {
				return nil, false, true
			}
		}
	}
	if zzIsEmpty(v) && !d.KeepEmptyOrNull {
		return nil, true, false
	}
	return v, false, false
}

func (sp *zzSpec) resolve(d *Decl) *Decl {
	// a template reference behaves as its body inlined at the reference site (the reference
	// site's xpath anchors it)
	for d.Template != nil {
		body := sp.templates[*d.Template]
		inl := *body
		if d.XPath != nil || d.XPathDynamic != nil {
			inl.XPath, inl.XPathDynamic = d.XPath, d.XPathDynamic
		}
		d = &inl
	}
	return d
}

func (sp *zzSpec) xpathOf(n *idr.Node, d *Decl) (string, bool) {
	if d.XPath != nil {
		return *d.XPath, true
	}
	if d.XPathDynamic != nil {
		v, omitted, failed := sp.eval(n, d.XPathDynamic, false, false)
		s, isStr := v.(string)
		zz.Assume(!omitted && !failed && isStr && s != "") // undocumented otherwise
		return s, true
	}
	return "", false
}

// eval returns (value, omitted, failed) of declaration d with cursor n.
func (sp *zzSpec) eval(n *idr.Node, d *Decl, isFinal, underArray bool) (interface{}, bool, bool) {
	d = sp.resolve(d)
	switch {
	case d.Const != nil:
		return sp.normalize(d, *d.Const)
	case d.External != nil:
		v, ok := sp.ext[*d.External]
		if !ok {
			return nil, false, true
		}
		return sp.normalize(d, v)
	}
	// anchoring
	if !isFinal && !underArray {
		if xp, has := sp.xpathOf(n, d); has {
			nodes, err := idr.MatchAll(n, xp)
			zz.Assume(err == nil)
			if len(nodes) == 0 {
				return sp.omitNil(d)
			}
			if len(nodes) > 1 {
				return nil, false, true
			}
			n = nodes[0]
		}
	}
	switch {
	case d.CustomFunc != nil:
		var args []string
		for _, a := range d.CustomFunc.Args {
			v, omitted, failed := sp.eval(n, a, false, false)
			if failed {
				return nil, false, true
			}
			s := ""
			if !omitted {
				if str, ok := v.(string); ok {
					s = str
				} else {
					zz.Assume(false) // non-string arguments: C03CustomFuncCall
				}
			}
			args = append(args, s) // absent value ⇒ the parameter's zero value
		}
		var r string
		switch d.CustomFunc.Name {
		case "cat":
			r = args[0] + "+" + args[1]
		case "var":
			for _, a := range args {
				r += "<" + a + ">"
			}
		case "nodename":
			r = n.Data + args[0]
		case "failif":
			if args[0] == "1" {
				if d.CustomFunc.IgnoreError {
					return sp.normalize(d, nil) // the failure is dropped: no value
				}
				return nil, false, true
			}
			r = "ok:" + args[0]
		}
		return sp.normalize(d, r)
	case d.Object != nil:
		obj := map[string]interface{}{}
		for _, k := range zzNames {
			c, ok := d.Object[k]
			if !ok {
				continue
			}
			v, omitted, failed := sp.eval(n, c, false, false)
			if failed {
				return nil, false, true
			}
			if !omitted {
				obj[k] = v
			}
		}
		return sp.normalize(d, obj)
	case d.Array != nil:
		arr := []interface{}{}
		for _, c := range d.Array { // declaration order
			rc := sp.resolve(c)
			nodes := []*idr.Node{n}
			if rc.Const == nil && rc.External == nil {
				if xp, has := sp.xpathOf(n, rc); has {
					var err error
					nodes, err = idr.MatchAll(n, xp)
					zz.Assume(err == nil)
				}
			} else if rc.XPath != nil || rc.XPathDynamic != nil {
				zz.Assume(false) // xpath on const/external is undocumented: excluded
			}
			for _, cn := range nodes {
				v, omitted, failed := sp.eval(cn, c, false, true)
				if failed {
					return nil, false, true
				}
				if !omitted {
					arr = append(arr, v)
				}
			}
		}
		return sp.normalize(d, arr)
	default: // field
		return sp.normalize(d, n.InnerText())
	}
}

func (sp *zzSpec) omitNil(d *Decl) (interface{}, bool, bool) {
	if d.KeepEmptyOrNull {
		return nil, false, false
	}
	return nil, true, false
}

// zzEqModNull: deep equality where a kept null and a kept empty container are the same
// (the documents say "{}"/"[]", the implementation emits null: representation of a kept
// empty value is not part of the claim).
func zzEqModNull(a, b interface{}) bool {
	if zzIsEmpty(a) && zzIsEmpty(b) {
		_, as := a.(string)
		_, bs := b.(string)
		return as == bs || a == nil || b == nil
	}
	switch x := a.(type) {
	case map[string]interface{}:
		y, ok := b.(map[string]interface{})
		if !ok {
			return false
		}
		for _, k := range zzNames {
			xv, xin := x[k]
			yv, yin := y[k]
			if xin != yin {
				return false
			}
			if xin && !zzEqModNull(xv, yv) {
				return false
			}
		}
		return true
	case []interface{}:
		y, ok := b.([]interface{})
		if !ok || len(x) != len(y) {
			return false
		}
		for i := range x {
			if !zzEqModNull(x[i], y[i]) {
				return false
			}
		}
		return true
	}
	return zzDeepEq(a, b)
}

// C02EvalVsRef: the value ParseNode produces for FINAL_OUTPUT equals the documented
// evaluation, for every schema of the family (with symbolic no_trim / keep_empty_or_null /
// type on its leaves) and every record.
func C02EvalVsRef() {
	zz.MapOrder(0)
	k := zz.NondetChoice("schema", zzNumSchemas)
	if f := zz.Param("schema", -1); f >= 0 {
		zz.Assume(k == f)
	}
	// two independent instances of the same schema: one for the reference (never touched by
	// the code under test), one for validation + evaluation
	raw := zzSchema(k)
	ref := zzSchema(k)
	which := []string{"a", "b"}[zz.NondetChoice("leaf", 2)]
	if d, ok := raw[finalOutput].Object[which]; ok && d.XPath != nil && d.Object == nil {
		nt := zz.NondetBool(which + ".no_trim")
		ke := zz.NondetBool(which + ".keep")
		var rt *resultType
		switch zz.NondetChoice(which+".type", 4) {
		case 1:
			rt = zzRT("int")
		case 2:
			rt = zzRT("boolean")
		case 3:
			rt = zzRT("string")
		}
		for _, sch := range []map[string]*Decl{raw, ref} {
			l := sch[finalOutput].Object[which]
			l.NoTrim, l.KeepEmptyOrNull, l.ResultType = nt, ke, rt
		}
	}
	rec := zzRecord()
	spec := &zzSpec{templates: ref, ext: map[string]string{}}
	want, wOmitted, wFailed := spec.eval(rec, ref[finalOutput], true, false)

	valid := zzValidate(raw)
	got, err := NewParseCtx(&transformctx.Ctx{}, zzFuncs, nil).ParseNode(rec, valid)
	zz.Observe("outcome", err == nil, wFailed)
	zz.Assert((err != nil) == wFailed, "per-record failure exactly where the documented rules fail the record")
	if err == nil && !wFailed {
		zz.Cover("value")
		if wOmitted {
			zz.Assert(zzIsEmpty(got), "an omitted FINAL_OUTPUT is null/empty")
		} else {
			zz.Assert(zzEqModNull(got, want), "value equals the documented evaluation")
		}
	} else {
		zz.Cover("failure")
	}
}

// C03CustomFuncCall: custom_func invocation never panics out of ParseNode, whatever `type`
// casts the argument declarations carry (the reflect model panics on a non-assignable
// argument exactly where reflect.Value.Call does).
func C03CustomFuncCall() {
	zz.MapOrder(0)
	castOf := func(k int) *resultType {
		switch k {
		case 1:
			return zzRT("int")
		case 2:
			return zzRT("float")
		case 3:
			return zzRT("boolean")
		case 4:
			return zzRT("string")
		}
		return nil
	}
	fn := []string{"cat", "var", "nodename", "onlyctx", "mixed"}[zz.NondetChoice("fn", 5)]
	nargs := 2
	if fn == "nodename" {
		nargs = 1
	}
	if fn == "onlyctx" {
		nargs = 0 // a function whose only parameter is the context (like the built-in now)
	}
	var args []*Decl
	for i := 0; i < nargs; i++ {
		if zz.NondetBool("absent") {
			// an argument whose xpath matches nothing: the value is absent (nil)
			args = append(args, &Decl{XPath: zzS("nope")})
		} else {
			args = append(args, &Decl{Const: zzS("1"), ResultType: castOf(zz.NondetChoice("cast", 5))})
		}
	}
	if zz.NondetBool("surplusArg") {
		// more arguments than the function has parameters is not rejected at schema time; the
		// surplus one may be absent as well
		if zz.NondetBool("surplusAbsent") {
			args = append(args, &Decl{XPath: zzS("nope")})
		} else {
			args = append(args, &Decl{Const: zzS("9")})
		}
	}
	raw := map[string]*Decl{finalOutput: {Object: map[string]*Decl{
		"u": {CustomFunc: &CustomFuncDecl{Name: fn, Args: args}},
	}}}
	// F16: an argument cast to int/float/boolean and passed to a string parameter
	cast := false
	for _, a := range args {
		if a.ResultType != nil && *a.ResultType != resultTypeString {
			cast = true
		}
	}
	zz.KnownRegion("F16", cast)
	valid := zzValidate(raw)
	rec := zzRecord()
	_, err := NewParseCtx(&transformctx.Ctx{}, zzFuncs, nil).ParseNode(rec, valid)
	zz.Observe("err", err == nil)
	zz.Cover("returned")
}

// C03ValidateCycles: schema validation terminates on every template graph: a template that
// reaches itself — through an object field, an array element, a custom_func argument, an
// xpath_dynamic declaration or a direct reference, in any combination over two templates — is
// rejected with an error (never unbounded recursion), and acyclic graphs are accepted.
func C03ValidateCycles() {
	zz.HangIsViolation()
	zz.MapOrder(0)
	ref := func(kind int, target string) *Decl {
		t := &Decl{Template: zzS(target)}
		switch kind {
		case 0:
			return t
		case 1:
			return &Decl{Object: map[string]*Decl{"a": t}}
		case 2:
			return &Decl{Array: []*Decl{t}}
		case 3:
			return &Decl{CustomFunc: &CustomFuncDecl{Name: "failif", Args: []*Decl{t}}}
		}
		return &Decl{XPathDynamic: t}
	}
	k1 := zz.NondetChoice("A.refs", 5)
	k2 := zz.NondetChoice("B.refs", 5)
	bTarget := []string{"", "A", "B"}[zz.NondetChoice("B.target", 3)]
	decls := map[string]*Decl{
		"A":         ref(k1, "B"),
		finalOutput: {Object: map[string]*Decl{"x": {Template: zzS("A")}}},
	}
	if bTarget == "" {
		decls["B"] = &Decl{Const: zzS("leaf")}
	} else {
		decls["B"] = ref(k2, bTarget)
	}
	ctx := &validateCtx{Decls: decls, customFuncs: zzFuncs, declHashes: map[string]string{}}
	_, err := ctx.validateDecl(finalOutput, decls[finalOutput], []string{finalOutput})
	if bTarget == "" {
		zz.Cover("acyclic")
		zz.Assert(err == nil, "an acyclic template graph is accepted")
	} else {
		zz.Cover("cyclic")
		zz.Assert(err != nil, "a template cycle is rejected with an error")
	}
}
