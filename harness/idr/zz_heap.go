package idr

import (
	zz "github.com/jf-tech/omniparser/zzverif"
)

// ---- symbolic heap of idr nodes (shared by C12, C11, C17 harnesses) ----

// zzNondetPickNode: symbolic selection among candidates (engine: guarded pointer set).
func zzNondetPickNode(name string, cands []*Node) *Node {
	return cands[zz.PickIndex(name, len(cands))]
}

type zzHeap struct {
	nodes []*Node
	rank  []int // ghost: strictly increasing from parent to child (acyclicity witness)
	pos   []int // ghost: position among siblings
}

// zzSymHeap allocates n nodes whose five link fields are arbitrary selections over
// {nil, node_0..node_{n-1}}, with arbitrary type, 1-byte data and distinct positive IDs.
func zzSymHeap(n int) *zzHeap {
	h := &zzHeap{nodes: make([]*Node, n), rank: make([]int, n), pos: make([]int, n)}
	for i := range h.nodes {
		h.nodes[i] = &Node{}
	}
	cands := make([]*Node, 0, n+1)
	cands = append(cands, nil)
	cands = append(cands, h.nodes...)
	for i, nd := range h.nodes {
		nd.ID = int64(zz.NondetInt("id", 1, 1<<20))
		nd.Parent = zzNondetPickNode("parent", cands)
		nd.FirstChild = zzNondetPickNode("first", cands)
		nd.LastChild = zzNondetPickNode("last", cands)
		nd.PrevSibling = zzNondetPickNode("prev", cands)
		nd.NextSibling = zzNondetPickNode("next", cands)
		nd.Type = NodeType(zz.NondetInt("type", 0, 3))
		nd.Data = string(zz.NondetBytesN("data", 1))
		h.rank[i] = zz.NondetInt("rank", 0, n)
		h.pos[i] = zz.NondetInt("pos", 0, n)
	}
	return h
}

// specIdx: index of p among the heap nodes, -1 for nil / foreign.
func specIdx(nodes []*Node, p *Node) int {
	idx := -1
	for j := range nodes {
		if nodes[j] == p {
			idx = j
		}
	}
	return idx
}

func specAt(a []int, i int) int {
	// total lookup: i out of range gives 0
	r := 0
	for j := range a {
		if j == i {
			r = a[j]
		}
	}
	return r
}

// specWfNode: the representation invariant of DESIGN.md appendix A.1 for node i, given
// which nodes are live. Written for merged (branch-free) evaluation.
func specWfNode(nodes []*Node, live []bool, rank, pos []int, i int) bool {
	n := nodes[i]
	ok := true
	p, f, l, pv, nx := n.Parent, n.FirstChild, n.LastChild, n.PrevSibling, n.NextSibling
	pi, fi, li, pvi, nxi := specIdx(nodes, p), specIdx(nodes, f), specIdx(nodes, l), specIdx(nodes, pv), specIdx(nodes, nx)
	// every non-nil link points to a live node
	if p != nil && !specLive(live, pi) {
		ok = false
	}
	if f != nil && !specLive(live, fi) {
		ok = false
	}
	if l != nil && !specLive(live, li) {
		ok = false
	}
	if pv != nil && !specLive(live, pvi) {
		ok = false
	}
	if nx != nil && !specLive(live, nxi) {
		ok = false
	}
	if p != nil && !(specAt(rank, pi) < rank[i]) {
		ok = false
	}
	if (f == nil) != (l == nil) {
		ok = false
	}
	if f != nil && !(f.Parent == n && f.PrevSibling == nil) {
		ok = false
	}
	if l != nil && !(l.Parent == n && l.NextSibling == nil) {
		ok = false
	}
	if nx != nil && !(nx.PrevSibling == n && nx.Parent == p && specAt(pos, nxi) == pos[i]+1) {
		ok = false
	}
	if pv != nil && !(pv.NextSibling == n && pv.Parent == p) {
		ok = false
	}
	if p == nil && !(pv == nil && nx == nil) {
		ok = false
	}
	if p != nil && pv == nil && p.FirstChild != n {
		ok = false
	}
	if p != nil && nx == nil && p.LastChild != n {
		ok = false
	}
	if pv == nil && pos[i] != 0 {
		ok = false
	}
	return ok
}

func specLive(live []bool, i int) bool {
	r := false
	for j := range live {
		if j == i {
			r = live[j]
		}
	}
	return r
}

func specWfForest(nodes []*Node, live []bool, rank, pos []int) bool {
	ok := true
	for i := range nodes {
		if live[i] && !specWfNode(nodes, live, rank, pos, i) {
			ok = false
		}
	}
	return ok
}

// specInSubtree: is m equal to x or a descendant of x (following Parent at most len(nodes) times).
func specInSubtree(nodes []*Node, m, x *Node) bool {
	in := false
	a := m
	for k := 0; k <= len(nodes); k++ {
		if a != nil && a == x {
			in = true
		}
		if a != nil {
			a = a.Parent
		}
	}
	return in
}

func specBlank(n *Node) bool {
	return n.Parent == nil && n.FirstChild == nil && n.LastChild == nil && n.PrevSibling == nil &&
		n.NextSibling == nil && n.Type == 0 && n.Data == "" && n.FormatSpecific == nil
}
