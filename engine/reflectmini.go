package main

// A small model of package reflect, driven by the static types the engine already has:
// just what antchfx/xpath (ValueOf/Kind/Convert/Float/String/Bool) and omniparser's
// invokeCustomFunc (TypeOf/NumIn/In/IsVariadic/Elem/Zero/Call/Interface) use.
// reflect.Value is kept as its 3-field struct with the boxed interface value stashed in the
// pointer field; reflect.Type is an interface value carrying the go/types type.
// Value.Call panics on a non-assignable argument exactly where the real one does.

import (
	"fmt"
	"go/token"
	"go/types"

	"golang.org/x/tools/go/ssa"
)

type rtypeV struct{ t types.Type }

var rtypeMarker types.Type = types.NewPointer(types.Typ[types.UnsafePointer])

func mkRType(t types.Type) Value {
	if t == nil {
		return IfaceV{}
	}
	return IfaceV{t: rtypeMarker, v: OpaqueV{rtypeV{t}}}
}

func rtypeOf(v Value) (types.Type, bool) {
	iv, ok := v.(IfaceV)
	if !ok || iv.t == nil {
		return nil, false
	}
	o, ok := iv.v.(OpaqueV)
	if !ok {
		return nil, false
	}
	rt, ok := o.x.(rtypeV)
	return rt.t, ok
}

func (e *Exec) mkRValue(boxed IfaceV) Value {
	return StructV{PtrV{}, boxed, e.ts.Const(64, 0)}
}

func rvalueBox(v Value) (IfaceV, bool) {
	sv, ok := v.(StructV)
	if !ok || len(sv) != 3 {
		return IfaceV{}, false
	}
	iv, ok := sv[1].(IfaceV)
	return iv, ok
}

func kindOf(t types.Type) int {
	switch u := t.Underlying().(type) {
	case *types.Basic:
		switch u.Kind() {
		case types.Bool, types.UntypedBool:
			return 1
		case types.Int, types.UntypedInt:
			return 2
		case types.Int8:
			return 3
		case types.Int16:
			return 4
		case types.Int32, types.UntypedRune:
			return 5
		case types.Int64:
			return 6
		case types.Uint:
			return 7
		case types.Uint8:
			return 8
		case types.Uint16:
			return 9
		case types.Uint32:
			return 10
		case types.Uint64:
			return 11
		case types.Uintptr:
			return 12
		case types.Float32:
			return 13
		case types.Float64, types.UntypedFloat:
			return 14
		case types.String, types.UntypedString:
			return 24
		case types.UnsafePointer:
			return 26
		}
	case *types.Array:
		return 17
	case *types.Chan:
		return 18
	case *types.Signature:
		return 19
	case *types.Interface:
		return 20
	case *types.Map:
		return 21
	case *types.Pointer:
		return 22
	case *types.Slice:
		return 23
	case *types.Struct:
		return 25
	}
	return 0
}

func init() {
	externals["reflect.TypeOf"] = func(e *Exec, _ *frame, _ token.Pos, _ *ssa.Function, a []Value) Value {
		iv := a[0].(IfaceV)
		return mkRType(iv.t)
	}
	externals["reflect.ValueOf"] = func(e *Exec, _ *frame, _ token.Pos, _ *ssa.Function, a []Value) Value {
		return e.mkRValue(a[0].(IfaceV))
	}
	externals["reflect.Zero"] = func(e *Exec, _ *frame, _ token.Pos, _ *ssa.Function, a []Value) Value {
		t, ok := rtypeOf(a[0])
		if !ok {
			panic(targetPanic{msg: "reflect: Zero(nil)", pos: "reflect"})
		}
		return e.mkRValue(e.box(t, e.zero(t)))
	}
	externals["(reflect.Value).Kind"] = func(e *Exec, _ *frame, _ token.Pos, _ *ssa.Function, a []Value) Value {
		iv, ok := rvalueBox(a[0])
		if !ok || iv.t == nil {
			return e.ts.Const(64, 0)
		}
		return e.ts.Const(64, uint64(kindOf(iv.t)))
	}
	externals["(reflect.Value).IsValid"] = func(e *Exec, _ *frame, _ token.Pos, _ *ssa.Function, a []Value) Value {
		iv, ok := rvalueBox(a[0])
		return e.ts.Bool(ok && iv.t != nil)
	}
	get := func(name string) extFn {
		return func(e *Exec, _ *frame, _ token.Pos, _ *ssa.Function, a []Value) Value {
			iv, ok := rvalueBox(a[0])
			if !ok || iv.t == nil {
				panic(targetPanic{msg: "reflect: call of reflect.Value." + name + " on zero Value", pos: "reflect"})
			}
			return iv.v
		}
	}
	externals["(reflect.Value).Bool"] = get("Bool")
	externals["(reflect.Value).String"] = get("String")
	externals["(reflect.Value).Float"] = get("Float")
	externals["(reflect.Value).Int"] = func(e *Exec, _ *frame, _ token.Pos, _ *ssa.Function, a []Value) Value {
		iv, _ := rvalueBox(a[0])
		t := iv.v.(*Term)
		_, signed, _ := intWidth(iv.t)
		if signed {
			return e.ts.SExt(t, 64)
		}
		return e.ts.ZExt(t, 64)
	}
	externals["(reflect.Value).Interface"] = func(e *Exec, _ *frame, _ token.Pos, _ *ssa.Function, a []Value) Value {
		iv, ok := rvalueBox(a[0])
		if !ok {
			panic(targetPanic{msg: "reflect: Interface on zero Value", pos: "reflect"})
		}
		return iv
	}
	externals["(reflect.Value).Type"] = func(e *Exec, _ *frame, _ token.Pos, _ *ssa.Function, a []Value) Value {
		iv, _ := rvalueBox(a[0])
		return mkRType(iv.t)
	}
	externals["(reflect.Value).IsNil"] = func(e *Exec, _ *frame, _ token.Pos, _ *ssa.Function, a []Value) Value {
		iv, _ := rvalueBox(a[0])
		switch x := iv.v.(type) {
		case PtrV:
			return e.ptrEq(x, PtrV{})
		case SliceV:
			return e.ts.Bool(x.data == nil)
		case *MapV:
			return e.ts.Bool(x == nil)
		case IfaceV:
			return e.ts.Bool(x.t == nil)
		case nil:
			return e.ts.True
		}
		return e.ts.Bool(!isFuncVal(iv.v))
	}
	externals["(reflect.Value).Len"] = func(e *Exec, _ *frame, _ token.Pos, _ *ssa.Function, a []Value) Value {
		iv, _ := rvalueBox(a[0])
		switch x := iv.v.(type) {
		case SliceV:
			return e.intV(len(x.data))
		case StrV:
			return e.intV(len(x.b))
		case ArrayV:
			return e.intV(len(x))
		case *MapV:
			n := 0
			if x != nil {
				for _, k := range x.keys {
					if k != nil {
						n++
					}
				}
			}
			return e.intV(n)
		}
		panic(unsupported("reflect.Value.Len on " + fmt.Sprintf("%T", iv.v)))
	}
	externals["(reflect.Value).Convert"] = func(e *Exec, _ *frame, _ token.Pos, _ *ssa.Function, a []Value) Value {
		iv, _ := rvalueBox(a[0])
		t, _ := rtypeOf(a[1])
		if iv.t == nil || t == nil {
			panic(targetPanic{msg: "reflect: Convert on invalid value", pos: "reflect"})
		}
		if isFloat(t) {
			switch x := iv.v.(type) {
			case FloatV:
				return e.mkRValue(IfaceV{t, x})
			case *Term:
				if x.width > 0 && x.IsConst() {
					_, s, _ := intWidth(iv.t)
					if s {
						return e.mkRValue(IfaceV{t, FloatV{float64(x.SVal())}})
					}
					return e.mkRValue(IfaceV{t, FloatV{float64(x.val)}})
				}
			}
			// string/bool -> float64 panics in the real reflect
			panic(targetPanic{msg: "reflect.Value.Convert: value of type " + iv.t.String() + " cannot be converted to type " + t.String(), pos: "reflect"})
		}
		if types.Identical(iv.t, t) {
			return a[0]
		}
		panic(unsupported("reflect.Value.Convert to " + t.String()))
	}
	externals["(reflect.Value).Call"] = extReflectCall
}

// box turns a value of static type t into the interface value reflect would report.
func (e *Exec) box(t types.Type, v Value) IfaceV {
	if _, isI := t.Underlying().(*types.Interface); isI {
		if iv, ok := v.(IfaceV); ok {
			return iv
		}
	}
	return IfaceV{t, v}
}

func extReflectCall(e *Exec, fr *frame, pos token.Pos, _ *ssa.Function, a []Value) Value {
	fv, ok := rvalueBox(a[0])
	if !ok || fv.t == nil {
		panic(targetPanic{msg: "reflect: call of reflect.Value.Call on zero Value", pos: "reflect"})
	}
	sig, ok := fv.t.Underlying().(*types.Signature)
	if !ok {
		panic(targetPanic{msg: "reflect: call of reflect.Value.Call on " + fv.t.String() + " Value", pos: "reflect"})
	}
	in := a[1].(SliceV).data
	np := sig.Params().Len()
	var args []Value
	conv := func(arg Value, pt types.Type, i int) Value {
		iv, ok := rvalueBox(arg)
		if !ok || iv.t == nil {
			// reflect.ValueOf(nil interface) is the zero Value
			if _, isI := pt.Underlying().(*types.Interface); isI {
				return IfaceV{}
			}
			panic(targetPanic{msg: "reflect: Call using zero Value argument", pos: "reflect.Value.Call"})
		}
		if !types.AssignableTo(iv.t, pt) {
			panic(targetPanic{msg: "reflect: Call using " + iv.t.String() + " as type " + pt.String(), pos: "reflect.Value.Call"})
		}
		if _, isI := pt.Underlying().(*types.Interface); isI {
			return iv
		}
		return iv.v
	}
	if sig.Variadic() {
		if len(in) < np-1 {
			panic(targetPanic{msg: "reflect: Call with too few input arguments", pos: "reflect.Value.Call"})
		}
		for i := 0; i < np-1; i++ {
			args = append(args, conv(in[i], sig.Params().At(i).Type(), i))
		}
		et := sig.Params().At(np - 1).Type().Underlying().(*types.Slice).Elem()
		var rest []Value
		for i := np - 1; i < len(in); i++ {
			rest = append(rest, conv(in[i], et, i))
		}
		if rest == nil {
			args = append(args, SliceV{})
		} else {
			args = append(args, SliceV{data: rest})
		}
	} else {
		if len(in) != np {
			msg := "reflect: Call with too many input arguments"
			if len(in) < np {
				msg = "reflect: Call with too few input arguments"
			}
			panic(targetPanic{msg: msg, pos: "reflect.Value.Call"})
		}
		for i := 0; i < np; i++ {
			args = append(args, conv(in[i], sig.Params().At(i).Type(), i))
		}
	}
	res := e.call(fr, pos, fv.v, args)
	var outs []Value
	switch sig.Results().Len() {
	case 0:
	case 1:
		outs = append(outs, e.mkRValue(e.box(sig.Results().At(0).Type(), res)))
	default:
		tv := res.(TupleV)
		for i := range tv {
			outs = append(outs, e.mkRValue(e.box(sig.Results().At(i).Type(), tv[i])))
		}
	}
	if outs == nil {
		return SliceV{}
	}
	return SliceV{data: outs}
}

// rtypeMethod dispatches an interface method call on a reflect.Type value.
func (e *Exec) rtypeMethod(t types.Type, name string, args []Value) Value {
	switch name {
	case "Kind":
		return e.ts.Const(64, uint64(kindOf(t)))
	case "String", "Name":
		return e.strConst(t.String())
	case "NumIn":
		return e.intV(t.Underlying().(*types.Signature).Params().Len())
	case "NumOut":
		return e.intV(t.Underlying().(*types.Signature).Results().Len())
	case "IsVariadic":
		return e.ts.Bool(t.Underlying().(*types.Signature).Variadic())
	case "In", "Out":
		i := int(e.concretizeInt(args[0].(*Term), "reflect.Type."+name))
		sig := t.Underlying().(*types.Signature)
		tup := sig.Params()
		if name == "Out" {
			tup = sig.Results()
		}
		if i < 0 || i >= tup.Len() {
			panic(targetPanic{msg: fmt.Sprintf("reflect: Func index out of bounds: index out of range [%d] with length %d", i, tup.Len()), pos: "reflect.Type." + name})
		}
		return mkRType(tup.At(i).Type())
	case "Implements":
		it, ok := rtypeOf(args[0])
		if !ok {
			panic(targetPanic{msg: "reflect: nil type passed to Type.Implements", pos: "reflect"})
		}
		iface, ok := it.Underlying().(*types.Interface)
		if !ok {
			panic(targetPanic{msg: "reflect: non-interface type passed to Type.Implements", pos: "reflect"})
		}
		return e.ts.Bool(types.Implements(t, iface))
	case "Elem":
		switch u := t.Underlying().(type) {
		case *types.Slice:
			return mkRType(u.Elem())
		case *types.Pointer:
			return mkRType(u.Elem())
		case *types.Array:
			return mkRType(u.Elem())
		case *types.Map:
			return mkRType(u.Elem())
		}
		panic(targetPanic{msg: "reflect: Elem of invalid type " + t.String(), pos: "reflect.Type.Elem"})
	}
	panic(unsupported("reflect.Type method " + name))
}
