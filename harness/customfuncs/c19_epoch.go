package customfuncs

import (
	"strconv"
	"time"

	zz "github.com/jf-tech/omniparser/zzverif"
)

// C19: epoch arithmetic of dateTimeToEpoch / epochToDateTimeRFC3339 on the real code and the
// real time package (time.Unix, Time.Unix, UnixNano, Nanosecond, In: pure integer code).
// Cuts (redirected in the engine): parseDateTime returns an arbitrary instant of years
// 1..9999; strconv.FormatInt / ParseInt pass the integer through; GetTimeLocation gives UTC;
// rfc3339 records the time it was asked to format.

const (
	zzMinSec = -62135596800 // 0001-01-01T00:00:00Z
	zzMaxSec = 253402300799 // 9999-12-31T23:59:59Z
)

var (
	zzInstantSec  int64
	zzInstantNsec int64
	zzFormatted   int64
	zzParsed      int64
	zzOutTime     time.Time
)

func zzParseDateTime(datetime, layout string, layoutHasTZ bool, fromTZ, toTZ string) (time.Time, bool, error) {
	return time.Unix(zzInstantSec, zzInstantNsec).UTC(), true, nil
}

func zzFormatInt(i int64, base int) string {
	zzFormatted = i
	return "N"
}

func zzParseInt(s string, base int, bitSize int) (int64, error) { return zzParsed, nil }

func zzGetTimeLocation(tz string) (*time.Location, error) { return time.UTC, nil }

func zzRFC3339(t time.Time, hasTZ bool) string {
	zzOutTime = t
	return "T"
}

// C19EpochOut: dateTimeToEpoch returns the instant's Unix time in the requested unit.
func C19EpochOut() {
	zzInstantSec = int64(zz.NondetInt("sec", zzMinSec, zzMaxSec))
	zzInstantNsec = int64(zz.NondetInt("nsec", 0, 999999999))
	ms := zz.NondetBool("millis")
	unit := epochUnitSeconds
	if ms {
		unit = epochUnitMilliseconds
	}
	var err error
	if zz.Symbolic() {
		_, err = DateTimeToEpoch(nil, "x", "", unit)
	} else {
		// native replay: through the real parser, formatter and strconv
		var out string
		out, err = DateTimeToEpoch(nil, time.Unix(zzInstantSec, zzInstantNsec).UTC().Format(time.RFC3339Nano), "", unit)
		if err == nil {
			zzFormatted, err = strconv.ParseInt(out, 10, 64)
		}
	}
	zz.Assert(err == nil, "no error for a parsable instant")
	if ms {
		zz.Cover("ms")
		// the quotient/remainder of the (non-negative) nanosecond part by 10^6 is stated as a
		// multiplication so that the solver never divides
		q := int64(zz.NondetInt("q", 0, 999))
		r := int64(zz.NondetInt("r", 0, 999999))
		zz.Assume(q*1000000+r == zzInstantNsec)
		zz.Assert(zzFormatted == zzInstantSec*1000+q, "MILLISECOND: floor(unix nanoseconds / 10^6), computed without wrap")
	} else {
		zz.Cover("s")
		zz.Assert(zzFormatted == zzInstantSec, "SECOND: the Unix time")
	}
}

// C19EpochIn: epochToDateTimeRFC3339 reconstructs the instant denoted by the epoch number.
// For MILLISECOND the epoch is built as n = 1000*s + m (0 <= m < 1000), so the expected
// instant (s seconds, m milliseconds) is known without the solver having to divide.
func C19EpochIn() {
	// MILLISECOND: the epoch is built from its magnitude, n = ±(1000*k + m) with 0 <= m < 1000,
	// so the expected instant is known without the solver having to divide: for n >= 0 it is
	// (k s, m ms); for n < 0 it is (-k s) if m = 0 and (-(k+1) s, (1000-m) ms) otherwise. The
	// engine folds n/1000 and n%1000 on this shape algebraically (engine/ranges.go), which is
	// what makes the unsat direction finish over the full range of years 1..9999.
	ms := zz.NondetBool("millis")
	unit := epochUnitSeconds
	var s, nanos int64
	if ms {
		unit = epochUnitMilliseconds
		m := int64(zz.NondetInt("m", 0, 999))
		if zz.NondetBool("negative") {
			k := int64(zz.NondetInt("k", 0, -zzMinSec-1))
			zzParsed = -(k*1000 + m)
			s = -k - int64(zz.IteInt(m > 0, 1, 0))
			nanos = int64(zz.IteInt(m > 0, int(1000-m), 0)) * 1000000
		} else {
			k := int64(zz.NondetInt("k", 0, zzMaxSec))
			zzParsed = k*1000 + m
			s, nanos = k, m*1000000
		}
	} else {
		zzParsed = int64(zz.NondetInt("n", zzMinSec, zzMaxSec))
	}
	var err error
	if zz.Symbolic() {
		_, err = EpochToDateTimeRFC3339(nil, "123", unit)
	} else {
		var out string
		out, err = EpochToDateTimeRFC3339(nil, strconv.FormatInt(zzParsed, 10), unit)
		if err == nil {
			zzOutTime, err = time.Parse(time.RFC3339Nano, out)
		}
	}
	zz.Assert(err == nil, "no error for an epoch in range")
	if ms {
		zz.Cover("ms")
		zz.Assert(zzOutTime.Unix() == s, "MILLISECOND: seconds of the reconstructed instant")
		if zz.Symbolic() {
			// the time value handed to the formatter; natively the RFC3339 text (second resolution)
			// is all there is to look at, so only the seconds are compared there
			zz.Assert(int64(zzOutTime.Nanosecond()) == nanos, "MILLISECOND: sub-second part of the reconstructed instant")
		}
	} else {
		zz.Cover("s")
		zz.Assert(zzOutTime.Unix() == zzParsed && zzOutTime.Nanosecond() == 0, "SECOND: the instant with that Unix time")
	}
}

func zzBases(lo, hi int64) []int64 {
	out := []int64{lo, hi - 65535, 0, -65535, -32768}
	for k := uint(16); k <= 37; k++ {
		out = append(out, int64(1)<<k, -(int64(1) << k), (int64(1)<<k)-32768, -(int64(1)<<k)-32768)
	}
	// around |n*10^6| = 2^63, i.e. s ~ ±9223372036
	out = append(out, 9223372036-32768, -9223372036-32768)
	var in []int64
	for _, b := range out {
		if b+65535 >= lo && b <= hi {
			in = append(in, b)
		}
	}
	return in
}
