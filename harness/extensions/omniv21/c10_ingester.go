package omniv21

import (
	"errors"
	"io"

	"github.com/jf-tech/omniparser/errs"
	"github.com/jf-tech/omniparser/extensions/omniv21/transform"
	"github.com/jf-tech/omniparser/idr"
	"github.com/jf-tech/omniparser/transformctx"
	zz "github.com/jf-tech/omniparser/zzverif"
)

// zzFR: a FormatReader over a list of prepared record nodes hanging under one root.
type zzFR struct {
	root     *idr.Node
	recs     []*idr.Node
	pos      int
	released []int // how often record i was released
	last     int   // index of the record handed out last (-1 none)
	ioErrAt  int   // Read fails with a fatal error when pos == ioErrAt (-1 never)
}

var zzFatal = errors.New("reader failure")

func (r *zzFR) Read() (*idr.Node, error) {
	if r.last >= 0 {
		zz.Assert(r.released[r.last] == 1, "the previous record is released exactly once before the next one is read")
	}
	if r.pos == r.ioErrAt {
		r.last = -1
		return nil, zzFatal
	}
	if r.pos >= len(r.recs) {
		r.last = -1
		return nil, io.EOF
	}
	r.last = r.pos
	r.pos++
	return r.recs[r.last], nil
}

func (r *zzFR) Release(n *idr.Node) {
	for i, rec := range r.recs {
		if rec == n {
			r.released[i]++
			zz.Assert(r.released[i] == 1, "a record is never released twice")
			idr.RemoveAndReleaseTree(n)
			return
		}
	}
	zz.Fail("Release called with a node the reader never handed out")
}

func (r *zzFR) IsContinuableError(err error) bool                  { return false }
func (r *zzFR) FmtErr(format string, args ...interface{}) error { return errors.New(format) }

func zzS(s string) *string { return &s }

func zzCount(n *idr.Node) int {
	k := 1
	for c := n.FirstChild; c != nil; c = c.NextSibling {
		k += zzCount(c)
	}
	return k
}

func zzMkRec(root *idr.Node, tag string, floats bool) (*idr.Node, string) {
	var b []byte
	if floats {
		// concrete texts for the float-cast variant (float parsing of symbolic text is outside)
		b = []byte([]string{"1.5", "NaN", "x", "-Inf"}[zz.NondetChoice(tag+".f", 4)])
	} else {
		b = zz.NondetBytes(tag, 1)
		for _, c := range b {
			zz.Assume(zz.ByteIn(c, "1a "))
		}
	}
	t := idr.CreateNode(idr.ElementNode, "T")
	idr.AddChild(root, t)
	v := idr.CreateNode(idr.ElementNode, "v")
	idr.AddChild(t, v)
	idr.AddChild(v, idr.CreateNode(idr.TextNode, string(b)))
	return t, string(b)
}

// C10IngesterStep: the ingester over K symbolic records: every result depends on its own
// record only (equal to an independent evaluation of a copy of that record), a failing
// record yields exactly one continuable ErrTransformFailed and nothing else changes, each
// record node is released exactly once and before the next read, the raw record is the node
// just read, and what stays attached under the reader's root does not grow.
func C10IngesterStep() {
	zz.MapOrder(0)
	K := zz.Param("K", 3)
	floats := zz.NondetBool("floatVariant")
	cast := "int"
	if floats {
		cast = "float" // non-finite floats parse fine but cannot be marshalled
	}
	decl := transform.ZZValidate(map[string]*transform.Decl{"FINAL_OUTPUT": {Object: map[string]*transform.Decl{
		"n": {XPath: zzS("v"), ResultType: transform.ZZRT(cast)},
		"s": {XPath: zzS("v"), KeepEmptyOrNull: true},
	}}})
	root := idr.CreateNode(idr.DocumentNode, "")
	fr := &zzFR{root: root, last: -1, ioErrAt: -1}
	var texts []string
	for i := 0; i < K; i++ {
		n, s := zzMkRec(root, "rec", floats)
		fr.recs = append(fr.recs, n)
		texts = append(texts, s)
	}
	fr.released = make([]int, K)
	if zz.NondetBool("readerFails") {
		fr.ioErrAt = zz.NondetChoice("failAt", K+1)
	}
	g := &ingester{finalOutputDecl: decl, customFuncs: transform.ZZFuncs, ctx: &transformctx.Ctx{}, reader: fr}
	base := -1
	for i := 0; i < K+2; i++ {
		raw, out, err := g.Read()
		if err == io.EOF {
			zz.Cover("eof")
			zz.Assert(fr.ioErrAt < 0 && i == K, "EOF exactly after the last record")
			zz.Assert(raw == nil && out == nil, "EOF comes with nil results")
			return
		}
		if err == zzFatal {
			zz.Cover("fatal")
			zz.Assert(i == fr.ioErrAt && raw == nil && out == nil, "a reader failure passes through unchanged")
			zz.Assert(!g.IsContinuableError(err), "and is not continuable")
			return
		}
		zz.Assert(i < K, "one result per record")
		// independent evaluation of a copy of record i
		copyRoot := idr.CreateNode(idr.DocumentNode, "")
		c := idr.CreateNode(idr.ElementNode, "T")
		idr.AddChild(copyRoot, c)
		cv := idr.CreateNode(idr.ElementNode, "v")
		idr.AddChild(c, cv)
		idr.AddChild(cv, idr.CreateNode(idr.TextNode, texts[i]))
		want, werr := transform.NewParseCtx(&transformctx.Ctx{}, transform.ZZFuncs, nil).ParseNode(c, decl)
		var wantBytes []byte
		if werr == nil {
			wantBytes, werr = jsonMarshalForHarness(want)
		}
		if werr != nil && err != nil && !errs.IsErrTransformFailed(err) {
			// a result that cannot be rendered as JSON: an error (its class is the reader's call),
			// never a success
			zz.Cover("marshal-failed")
			zz.Assert(raw != nil || out == nil, "marshal failure carries no bytes")
			continue
		}
		if werr != nil {
			zz.Cover("record-failed")
			zz.Assert(err != nil && errs.IsErrTransformFailed(err) && g.IsContinuableError(err), "a failing record is a continuable ErrTransformFailed")
			zz.Assert(raw == nil && out == nil, "a failure comes with nil results")
		} else {
			zz.Cover("record-ok")
			zz.Assert(err == nil && out != nil && raw != nil, "a good record is delivered")
			if err == nil {
				zz.Assert(string(out) == string(wantBytes), "the output depends on this record only")
				zz.Assert(raw.Raw() == interface{}(fr.recs[i]), "the raw record is the node just read")
			}
		}
		size := zzCount(root)
		if base < 0 {
			base = size
		}
		zz.Assert(size <= base, "what stays attached under the reader's root does not grow with records")
	}
	zz.Fail("no terminal result")
}
