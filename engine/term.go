package main

// Hash-consed SMT terms (Bool and fixed-width bit-vectors) with constant folding.
// One TermStore per worker; terms are never shared between workers.

import (
	"fmt"
	"math/bits"
	"strings"
)

type Op uint8

const (
	OpConst Op = iota
	OpVar
	OpNot
	OpAnd
	OpOr
	OpIte
	OpEq
	OpAdd
	OpSub
	OpMul
	OpUDiv
	OpURem
	OpSDiv
	OpSRem
	OpBAnd
	OpBOr
	OpBXor
	OpShl
	OpLShr
	OpAShr
	OpULt
	OpULe
	OpSLt
	OpSLe
	OpZExt
	OpSExt
	OpExtract // val = lo, width = hi-lo+1
	OpUF      // uninterpreted function application, name = function symbol
)

var opSMT = map[Op]string{
	OpNot: "not", OpAnd: "and", OpOr: "or", OpIte: "ite", OpEq: "=",
	OpAdd: "bvadd", OpSub: "bvsub", OpMul: "bvmul", OpUDiv: "bvudiv", OpURem: "bvurem",
	OpSDiv: "bvsdiv", OpSRem: "bvsrem", OpBAnd: "bvand", OpBOr: "bvor", OpBXor: "bvxor",
	OpShl: "bvshl", OpLShr: "bvlshr", OpAShr: "bvashr", OpULt: "bvult", OpULe: "bvule",
	OpSLt: "bvslt", OpSLe: "bvsle",
}

// Term: width 0 = Bool, otherwise bit-vector of that width (<= 64).
type Term struct {
	op    Op
	width int
	args  []*Term
	val   uint64 // const value (masked) / extract lo
	name  string // var / uf name
	id    int
	store *TermStore
	sent  bool // define-fun emitted to the solver
	// single-variable analysis cache: 0 unknown, 1 no vars, 2 exactly one var (onlyVar), 3 several / UF
	varState uint8
	onlyVar  *Term
	// interval cache (ranges.go)
	rlo, rhi uint64
	rEpoch   int
}

// soleVar returns the only variable t depends on (nil if none, several, or a UF occurs).
func (t *Term) soleVar() *Term {
	if t.varState == 0 {
		switch t.op {
		case OpConst:
			t.varState = 1
		case OpVar:
			t.varState, t.onlyVar = 2, t
		case OpUF:
			t.varState = 3
		default:
			st := uint8(1)
			var v *Term
			for _, a := range t.args {
				a.soleVar()
				switch a.varState {
				case 2:
					if v == nil {
						v, st = a.onlyVar, 2
					} else if v != a.onlyVar {
						st = 3
					}
				case 3:
					st = 3
				}
				if st == 3 {
					break
				}
			}
			t.varState = st
			if st == 2 {
				t.onlyVar = v
			}
		}
	}
	if t.varState == 2 {
		return t.onlyVar
	}
	return nil
}

type TermStore struct {
	tab    map[termKey]*Term
	nextID int
	True   *Term
	False  *Term
	// uninterpreted function signatures: name -> (arg widths, result width)
	ufs map[string][]int
	// variable ranges assumed at creation (ranges.go)
	varRange   map[*Term]rng
	learned    map[*Term]rng
	rangeEpoch int
}

func NewTermStore() *TermStore {
	s := &TermStore{tab: map[termKey]*Term{}, ufs: map[string][]int{}}
	s.True = s.mk(&Term{op: OpConst, width: 0, val: 1})
	s.False = s.mk(&Term{op: OpConst, width: 0, val: 0})
	return s
}

type termKey struct {
	op         Op
	width      int
	val        uint64
	name       string
	a0, a1, a2 int
}

func (s *TermStore) mk(t *Term) *Term {
	k := termKey{op: t.op, width: t.width, val: t.val, name: t.name, a0: -1, a1: -1, a2: -1}
	switch len(t.args) {
	case 0:
	case 1:
		k.a0 = t.args[0].id
	case 2:
		k.a0, k.a1 = t.args[0].id, t.args[1].id
	case 3:
		k.a0, k.a1, k.a2 = t.args[0].id, t.args[1].id, t.args[2].id
	default:
		var sb strings.Builder
		sb.WriteString(t.name)
		for _, a := range t.args {
			fmt.Fprintf(&sb, ",%d", a.id)
		}
		k.name = sb.String()
	}
	if e, ok := s.tab[k]; ok {
		return e
	}
	t.id = s.nextID
	s.nextID++
	t.store = s
	s.tab[k] = t
	return t
}

func mask(w int) uint64 {
	if w >= 64 {
		return ^uint64(0)
	}
	return (uint64(1) << uint(w)) - 1
}

func (s *TermStore) Const(w int, v uint64) *Term {
	if w == 0 {
		if v != 0 {
			return s.True
		}
		return s.False
	}
	return s.mk(&Term{op: OpConst, width: w, val: v & mask(w)})
}

func (s *TermStore) Bool(b bool) *Term {
	if b {
		return s.True
	}
	return s.False
}

func (s *TermStore) Var(name string, w int) *Term {
	return s.mk(&Term{op: OpVar, width: w, name: name})
}

func (t *Term) IsConst() bool { return t.op == OpConst }
func (t *Term) IsTrue() bool  { return t.op == OpConst && t.width == 0 && t.val == 1 }
func (t *Term) IsFalse() bool { return t.op == OpConst && t.width == 0 && t.val == 0 }

// signed value of constant
func (t *Term) SVal() int64 {
	return sext64(t.val, t.width)
}

func sext64(v uint64, w int) int64 {
	if w >= 64 {
		return int64(v)
	}
	if v&(1<<uint(w-1)) != 0 {
		return int64(v | ^mask(w))
	}
	return int64(v)
}

func (s *TermStore) Not(a *Term) *Term {
	if a.IsConst() {
		return s.Bool(a.val == 0)
	}
	if a.op == OpNot {
		return a.args[0]
	}
	return s.mk(&Term{op: OpNot, width: 0, args: []*Term{a}})
}

func (s *TermStore) And(a, b *Term) *Term {
	if a.IsFalse() || b.IsFalse() {
		return s.False
	}
	if a.IsTrue() {
		return b
	}
	if b.IsTrue() {
		return a
	}
	if a == b {
		return a
	}
	if (a.op == OpNot && a.args[0] == b) || (b.op == OpNot && b.args[0] == a) {
		return s.False
	}
	return s.mk(&Term{op: OpAnd, width: 0, args: []*Term{a, b}})
}

func (s *TermStore) Or(a, b *Term) *Term {
	if a.IsTrue() || b.IsTrue() {
		return s.True
	}
	if a.IsFalse() {
		return b
	}
	if b.IsFalse() {
		return a
	}
	if a == b {
		return a
	}
	if (a.op == OpNot && a.args[0] == b) || (b.op == OpNot && b.args[0] == a) {
		return s.True
	}
	return s.mk(&Term{op: OpOr, width: 0, args: []*Term{a, b}})
}

func (s *TermStore) Implies(a, b *Term) *Term { return s.Or(s.Not(a), b) }

func (s *TermStore) Ite(c, a, b *Term) *Term {
	if c.IsTrue() {
		return a
	}
	if c.IsFalse() {
		return b
	}
	if a == b {
		return a
	}
	if a.width != b.width {
		panic(fmt.Sprintf("ite width mismatch %d %d", a.width, b.width))
	}
	if a.width == 0 {
		if a.IsTrue() && b.IsFalse() {
			return c
		}
		if a.IsFalse() && b.IsTrue() {
			return s.Not(c)
		}
		if a.IsTrue() {
			return s.Or(c, b)
		}
		if a.IsFalse() {
			return s.And(s.Not(c), b)
		}
		if b.IsTrue() {
			return s.Or(s.Not(c), a)
		}
		if b.IsFalse() {
			return s.And(c, a)
		}
	}
	if c.op == OpNot {
		return s.Ite(c.args[0], b, a)
	}
	return s.mk(&Term{op: OpIte, width: a.width, args: []*Term{c, a, b}})
}

func (s *TermStore) Eq(a, b *Term) *Term {
	if a == b {
		return s.True
	}
	if a.width != b.width {
		panic(fmt.Sprintf("eq width mismatch %d %d: %s %s", a.width, b.width, a, b))
	}
	if a.IsConst() && b.IsConst() {
		return s.Bool(a.val == b.val)
	}
	if a.width == 0 {
		if a.IsTrue() {
			return b
		}
		if b.IsTrue() {
			return a
		}
		if a.IsFalse() {
			return s.Not(b)
		}
		if b.IsFalse() {
			return s.Not(a)
		}
	}
	// eq(ite(c,k1,k2), k) with constants
	if b.IsConst() && a.op == OpIte {
		return s.Ite(a.args[0], s.Eq(a.args[1], b), s.Eq(a.args[2], b))
	}
	if a.IsConst() && b.op == OpIte {
		return s.Ite(b.args[0], s.Eq(b.args[1], a), s.Eq(b.args[2], a))
	}
	// zext(x) == const
	if b.IsConst() && a.op == OpZExt {
		iw := a.args[0].width
		if b.val&^mask(iw) != 0 {
			return s.False
		}
		return s.Eq(a.args[0], s.Const(iw, b.val))
	}
	if a.IsConst() && b.op == OpZExt {
		return s.Eq(b, a)
	}
	if a.id > b.id {
		a, b = b, a
	}
	return s.mk(&Term{op: OpEq, width: 0, args: []*Term{a, b}})
}

func (s *TermStore) Ne(a, b *Term) *Term { return s.Not(s.Eq(a, b)) }

func foldBin(op Op, w int, x, y uint64) (uint64, bool) {
	m := mask(w)
	sx, sy := sext64(x, w), sext64(y, w)
	switch op {
	case OpAdd:
		return (x + y) & m, true
	case OpSub:
		return (x - y) & m, true
	case OpMul:
		return (x * y) & m, true
	case OpUDiv:
		if y == 0 {
			return m, true
		}
		return (x / y) & m, true
	case OpURem:
		if y == 0 {
			return x, true
		}
		return (x % y) & m, true
	case OpSDiv:
		if y == 0 {
			if sx < 0 {
				return 1, true
			}
			return m, true
		}
		if sy == -1 {
			return uint64(-sx) & m, true
		}
		return uint64(sx/sy) & m, true
	case OpSRem:
		if y == 0 {
			return x, true
		}
		if sy == -1 {
			return 0, true
		}
		return uint64(sx%sy) & m, true
	case OpBAnd:
		return x & y, true
	case OpBOr:
		return x | y, true
	case OpBXor:
		return x ^ y, true
	case OpShl:
		if y >= uint64(w) {
			return 0, true
		}
		return (x << y) & m, true
	case OpLShr:
		if y >= uint64(w) {
			return 0, true
		}
		return (x >> y) & m, true
	case OpAShr:
		if y >= uint64(w) {
			if sx < 0 {
				return m, true
			}
			return 0, true
		}
		return uint64(sx>>y) & m, true
	}
	return 0, false
}

// BV binary op
func (s *TermStore) Bin(op Op, a, b *Term) *Term {
	if a.width != b.width || a.width == 0 {
		panic(fmt.Sprintf("bin %v width mismatch %d %d", opSMT[op], a.width, b.width))
	}
	w := a.width
	if a.IsConst() && b.IsConst() {
		if v, ok := foldBin(op, w, a.val, b.val); ok {
			return s.Const(w, v)
		}
	}
	switch op {
	case OpAdd:
		if a.IsConst() && a.val == 0 {
			return b
		}
		if b.IsConst() && b.val == 0 {
			return a
		}
		// (x + c1) + c2
		if b.IsConst() && a.op == OpAdd && a.args[1].IsConst() {
			return s.Bin(OpAdd, a.args[0], s.Const(w, a.args[1].val+b.val))
		}
		if a.IsConst() {
			a, b = b, a
		}
	case OpSub:
		if b.IsConst() && b.val == 0 {
			return a
		}
		if a == b {
			return s.Const(w, 0)
		}
		if b.IsConst() {
			return s.Bin(OpAdd, a, s.Const(w, -b.val))
		}
		// 0 - (0 - x) = x
		if a.IsConst() && a.val == 0 && b.op == OpSub && b.args[0].IsConst() && b.args[0].val == 0 {
			return b.args[1]
		}
	case OpMul:
		if a.IsConst() {
			a, b = b, a
		}
		if b.IsConst() {
			if b.val == 0 {
				return b
			}
			if b.val == 1 {
				return a
			}
		}
	case OpBAnd:
		if a.IsConst() {
			a, b = b, a
		}
		if b.IsConst() {
			if b.val == 0 {
				return b
			}
			if b.val == mask(w) {
				return a
			}
		}
		if a == b {
			return a
		}
	case OpBOr:
		if a.IsConst() {
			a, b = b, a
		}
		if b.IsConst() {
			if b.val == 0 {
				return a
			}
			if b.val == mask(w) {
				return b
			}
		}
		if a == b {
			return a
		}
	case OpBXor:
		if a.IsConst() {
			a, b = b, a
		}
		if b.IsConst() && b.val == 0 {
			return a
		}
		if a == b {
			return s.Const(w, 0)
		}
	case OpShl, OpLShr, OpAShr:
		if b.IsConst() && b.val == 0 {
			return a
		}
	case OpUDiv, OpURem:
		if b.IsConst() && s.varRange != nil {
			if r := s.divByConst(op == OpURem, a, b.val); r != nil {
				return r
			}
		}
	case OpSDiv, OpSRem:
		if b.IsConst() && s.varRange != nil && b.val < uint64(1)<<uint(w-1) && s.Range(a).hi < uint64(1)<<uint(w-1) {
			if r := s.divByConst(op == OpSRem, a, b.val); r != nil {
				return r
			}
		}
		// numerator entirely negative: Go (and bvsdiv/bvsrem) truncate toward zero, so
		// a / c = -((-a) / c) and a % c = -((-a) % c)
		if b.IsConst() && s.varRange != nil && w == 64 && b.val > 0 && b.val < uint64(1)<<63 && !a.IsConst() {
			// a = -(X) with X non-negative (a may be zero): same identity
			if a.op == OpSub && a.args[0].IsConst() && a.args[0].val == 0 && s.Range(a.args[1]).hi < uint64(1)<<63 {
				if r := s.divByConst(op == OpSRem, a.args[1], b.val); r != nil {
					return s.Neg(r)
				}
			}
			if ra := s.Range(a); ra.lo > uint64(1)<<63 {
				na := s.Neg(a)
				if r := s.divByConst(op == OpSRem, na, b.val); r != nil {
					return s.Neg(r)
				}
			}
		}
	}
	// push ops through ite with constant arms when other side const (keeps things foldable)
	if b.IsConst() && a.op == OpIte && a.args[1].IsConst() && a.args[2].IsConst() {
		return s.Ite(a.args[0], s.Bin(op, a.args[1], b), s.Bin(op, a.args[2], b))
	}
	return s.mk(&Term{op: op, width: w, args: []*Term{a, b}})
}

// BV comparison
func (s *TermStore) Cmp(op Op, a, b *Term) *Term {
	if a.width != b.width || a.width == 0 {
		panic(fmt.Sprintf("cmp width mismatch %d %d", a.width, b.width))
	}
	w := a.width
	if a.IsConst() && b.IsConst() {
		switch op {
		case OpULt:
			return s.Bool(a.val < b.val)
		case OpULe:
			return s.Bool(a.val <= b.val)
		case OpSLt:
			return s.Bool(sext64(a.val, w) < sext64(b.val, w))
		case OpSLe:
			return s.Bool(sext64(a.val, w) <= sext64(b.val, w))
		}
	}
	if a == b {
		return s.Bool(op == OpULe || op == OpSLe)
	}
	if s.varRange != nil {
		if v, ok := s.cmpByRange(op, a, b); ok {
			return s.Bool(v)
		}
	}
	if b.IsConst() && a.op == OpIte && a.args[1].IsConst() && a.args[2].IsConst() {
		return s.Ite(a.args[0], s.Cmp(op, a.args[1], b), s.Cmp(op, a.args[2], b))
	}
	if a.IsConst() && b.op == OpIte && b.args[1].IsConst() && b.args[2].IsConst() {
		return s.Ite(b.args[0], s.Cmp(op, a, b.args[1]), s.Cmp(op, a, b.args[2]))
	}
	// zext(x) vs const, both non-negative: compare at narrow width when const fits
	if a.op == OpZExt && b.IsConst() {
		iw := a.args[0].width
		if iw < w {
			bs := sext64(b.val, w)
			signed := op == OpSLt || op == OpSLe
			if signed && bs < 0 {
				return s.False
			}
			if b.val > mask(iw) {
				return s.True
			}
			nop := op
			if op == OpSLt {
				nop = OpULt
			} else if op == OpSLe {
				nop = OpULe
			}
			return s.Cmp(nop, a.args[0], s.Const(iw, b.val))
		}
	}
	if b.op == OpZExt && a.IsConst() {
		iw := b.args[0].width
		if iw < w {
			as := sext64(a.val, w)
			signed := op == OpSLt || op == OpSLe
			if signed && as < 0 {
				return s.True
			}
			if a.val > mask(iw) {
				return s.False
			}
			nop := op
			if op == OpSLt {
				nop = OpULt
			} else if op == OpSLe {
				nop = OpULe
			}
			return s.Cmp(nop, s.Const(iw, a.val), b.args[0])
		}
	}
	return s.mk(&Term{op: op, width: 0, args: []*Term{a, b}})
}

func (s *TermStore) ZExt(a *Term, w int) *Term {
	if a.width == w {
		return a
	}
	if a.width > w {
		return s.Extract(a, w-1, 0)
	}
	if a.IsConst() {
		return s.Const(w, a.val)
	}
	if a.op == OpIte && a.args[1].IsConst() && a.args[2].IsConst() {
		return s.Ite(a.args[0], s.ZExt(a.args[1], w), s.ZExt(a.args[2], w))
	}
	if a.op == OpZExt {
		return s.ZExt(a.args[0], w)
	}
	return s.mk(&Term{op: OpZExt, width: w, args: []*Term{a}})
}

func (s *TermStore) SExt(a *Term, w int) *Term {
	if a.width == w {
		return a
	}
	if a.width > w {
		return s.Extract(a, w-1, 0)
	}
	if a.IsConst() {
		return s.Const(w, uint64(sext64(a.val, a.width)))
	}
	if a.op == OpIte && a.args[1].IsConst() && a.args[2].IsConst() {
		return s.Ite(a.args[0], s.SExt(a.args[1], w), s.SExt(a.args[2], w))
	}
	if a.op == OpZExt {
		// zext then sext = zext (top bit is 0)
		return s.ZExt(a.args[0], w)
	}
	return s.mk(&Term{op: OpSExt, width: w, args: []*Term{a}})
}

func (s *TermStore) Extract(a *Term, hi, lo int) *Term {
	w := hi - lo + 1
	if lo == 0 && w == a.width {
		return a
	}
	if a.IsConst() {
		return s.Const(w, a.val>>uint(lo))
	}
	if (a.op == OpZExt || a.op == OpSExt) && lo == 0 {
		iw := a.args[0].width
		if w == iw {
			return a.args[0]
		}
		if w < iw {
			return s.Extract(a.args[0], hi, 0)
		}
		if a.op == OpZExt {
			return s.ZExt(a.args[0], w)
		}
		return s.SExt(a.args[0], w)
	}
	if a.op == OpIte && a.args[1].IsConst() && a.args[2].IsConst() {
		return s.Ite(a.args[0], s.Extract(a.args[1], hi, lo), s.Extract(a.args[2], hi, lo))
	}
	return s.mk(&Term{op: OpExtract, width: w, val: uint64(lo), args: []*Term{a}})
}

func (s *TermStore) Neg(a *Term) *Term { return s.Bin(OpSub, s.Const(a.width, 0), a) }
func (s *TermStore) BNot(a *Term) *Term {
	return s.Bin(OpBXor, a, s.Const(a.width, mask(a.width)))
}

// UF application. sig = arg widths..., result width last.
func (s *TermStore) UF(name string, resW int, args ...*Term) *Term {
	sig := make([]int, 0, len(args)+1)
	for _, a := range args {
		sig = append(sig, a.width)
	}
	sig = append(sig, resW)
	if old, ok := s.ufs[name]; ok {
		if fmt.Sprint(old) != fmt.Sprint(sig) {
			panic("UF signature mismatch for " + name)
		}
	} else {
		s.ufs[name] = sig
	}
	return s.mk(&Term{op: OpUF, width: resW, name: name, args: args})
}

func sortSMT(w int) string {
	if w == 0 {
		return "Bool"
	}
	return fmt.Sprintf("(_ BitVec %d)", w)
}

func constSMT(w int, v uint64) string {
	if w == 0 {
		if v != 0 {
			return "true"
		}
		return "false"
	}
	if w%4 == 0 {
		return fmt.Sprintf("#x%0*x", w/4, v)
	}
	return fmt.Sprintf("#b%0*b", w, v)
}

func smtName(n string) string {
	// quoted symbol; names never contain | or \
	return "|v_" + n + "|"
}

// ref returns how the term is referred to in SMT text once defined.
func (t *Term) ref() string {
	switch t.op {
	case OpConst:
		return constSMT(t.width, t.val)
	case OpVar:
		return smtName(t.name)
	}
	return fmt.Sprintf("t%d", t.id)
}

// body renders the term's defining expression using refs to its arguments.
func (t *Term) body() string {
	var sb strings.Builder
	switch t.op {
	case OpZExt:
		fmt.Fprintf(&sb, "((_ zero_extend %d) %s)", t.width-t.args[0].width, t.args[0].ref())
	case OpSExt:
		fmt.Fprintf(&sb, "((_ sign_extend %d) %s)", t.width-t.args[0].width, t.args[0].ref())
	case OpExtract:
		fmt.Fprintf(&sb, "((_ extract %d %d) %s)", int(t.val)+t.width-1, t.val, t.args[0].ref())
	case OpUF:
		if len(t.args) == 0 {
			return "|uf_" + t.name + "|"
		}
		sb.WriteString("(|uf_" + t.name + "|")
		for _, a := range t.args {
			sb.WriteString(" " + a.ref())
		}
		sb.WriteString(")")
	default:
		sb.WriteString("(" + opSMT[t.op])
		for _, a := range t.args {
			sb.WriteString(" " + a.ref())
		}
		sb.WriteString(")")
	}
	return sb.String()
}

// String renders the whole term as a tree (debugging / samples only; bounded).
func (t *Term) String() string {
	var sb strings.Builder
	t.write(&sb, 0)
	return sb.String()
}

func (t *Term) write(sb *strings.Builder, depth int) {
	if depth > 6 {
		sb.WriteString("…")
		return
	}
	switch t.op {
	case OpConst:
		if t.width == 0 {
			sb.WriteString(constSMT(0, t.val))
		} else {
			fmt.Fprintf(sb, "%d", sext64(t.val, t.width))
		}
	case OpVar:
		sb.WriteString(t.name)
	default:
		name := opSMT[t.op]
		switch t.op {
		case OpZExt:
			name = "zext"
		case OpSExt:
			name = "sext"
		case OpExtract:
			name = "extract"
		case OpUF:
			name = t.name
		}
		sb.WriteString("(" + name)
		for _, a := range t.args {
			sb.WriteString(" ")
			a.write(sb, depth+1)
		}
		sb.WriteString(")")
	}
}

// Eval evaluates a term under an assignment of variables (missing vars = 0).
// UF applications are evaluated through ufEval if given, else 0.
func (t *Term) Eval(env map[string]uint64, memo map[*Term]uint64) uint64 {
	if v, ok := memo[t]; ok {
		return v
	}
	var r uint64
	a := func(i int) uint64 { return t.args[i].Eval(env, memo) }
	switch t.op {
	case OpConst:
		r = t.val
	case OpVar:
		r = env[t.name] & mask(maxi(t.width, 1))
	case OpNot:
		r = 1 - a(0)
	case OpAnd:
		r = a(0) & a(1)
	case OpOr:
		r = a(0) | a(1)
	case OpIte:
		if a(0) != 0 {
			r = a(1)
		} else {
			r = a(2)
		}
	case OpEq:
		if a(0) == a(1) {
			r = 1
		}
	case OpULt, OpULe, OpSLt, OpSLe:
		x, y := a(0), a(1)
		w := t.args[0].width
		var b bool
		switch t.op {
		case OpULt:
			b = x < y
		case OpULe:
			b = x <= y
		case OpSLt:
			b = sext64(x, w) < sext64(y, w)
		case OpSLe:
			b = sext64(x, w) <= sext64(y, w)
		}
		if b {
			r = 1
		}
	case OpZExt:
		r = a(0)
	case OpSExt:
		r = uint64(sext64(a(0), t.args[0].width)) & mask(t.width)
	case OpExtract:
		r = (a(0) >> t.val) & mask(t.width)
	case OpUF:
		key := "uf:" + t.name
		for i := range t.args {
			key += fmt.Sprintf(":%d", a(i))
		}
		r = env[key] & mask(maxi(t.width, 1))
	default:
		r, _ = foldBin(t.op, t.width, a(0), a(1))
	}
	memo[t] = r
	return r
}

func maxi(a, b int) int {
	if a > b {
		return a
	}
	return b
}

var _ = bits.Len
