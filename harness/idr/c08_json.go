package idr

import (
	"encoding/json"
	"io"
	"strconv"

	zz "github.com/jf-tech/omniparser/zzverif"
)

// ---- JSON token model: (*json.Decoder).Token is redirected to zzJSONToken, which pops the
// tokens of an abstract JSON value (forked shape, symbolic leaves). Tokenisation itself
// (encoding/json's scanner) is outside; what the decoder reports for a grammar-valid input
// is exactly this token sequence. ----

type zzJ struct {
	kind byte // 'o' object, 'a' array, 's' string, 'n' number, 'b' bool, 'z' null
	keys []string
	kids []*zzJ
	s    string
	f    float64
	b    bool
}

type zzTok struct {
	tok json.Token
}

var zzJSONStreams = map[*json.Decoder]*[]json.Token{}

// zzJSONFailAfter: the decoder's source fails (instead of ending) once the tokens are used up
var zzJSONFailAfter = map[*json.Decoder]error{}

func zzJSONToken(d *json.Decoder) (json.Token, error) {
	q := zzJSONStreams[d]
	if q == nil || len(*q) == 0 {
		if e := zzJSONFailAfter[d]; e != nil {
			return nil, e
		}
		return nil, io.EOF
	}
	t := (*q)[0]
	*q = (*q)[1:]
	return t, nil
}

func (j *zzJ) tokens(out []json.Token) []json.Token {
	switch j.kind {
	case 'o':
		out = append(out, json.Delim('{'))
		for i, k := range j.keys {
			out = append(out, k)
			out = j.kids[i].tokens(out)
		}
		return append(out, json.Delim('}'))
	case 'a':
		out = append(out, json.Delim('['))
		for _, k := range j.kids {
			out = k.tokens(out)
		}
		return append(out, json.Delim(']'))
	case 's':
		return append(out, j.s)
	case 'n':
		return append(out, j.f)
	case 'b':
		return append(out, j.b)
	}
	return append(out, nil)
}

func zzScalar() *zzJ {
	switch zz.NondetChoice("scalar", zz.Param("SK", 4)) {
	case 0:
		v := zz.NondetBytesN("sv", 1)
		zz.Assume(zz.ByteIn(v[0], "12"))
		return &zzJ{kind: 's', s: string(v)}
	case 1:
		return &zzJ{kind: 'n', f: zzNums[zz.NondetChoice("num", zz.Param("NUMS", 2))]}
	case 2:
		return &zzJ{kind: 'b', b: zz.NondetBool("bv")}
	}
	return &zzJ{kind: 'z'}
}

// zzNums: the number literals of the value family (floating point is concrete in the engine):
// small, negative, fractional, beyond 2^53, exactly 2^63, beyond int64/uint64, huge, tiny.
var zzNums = []float64{1, 2, -3, 0.5, 9007199254740993, 9223372036854775808, 1e25, 1.5e300, -1e-7, 0}

func zzNumText(f float64) string { return strconv.FormatFloat(f, 'g', -1, 64) }

var zzKeys = []string{"a", "b", "T", ""}

// zzValue: a JSON value of nesting depth <= depth; containers hold 0..W members.
func zzValue(depth, W int) *zzJ {
	k := 0
	if depth > 0 {
		k = zz.NondetChoice("vkind", 3)
	}
	switch k {
	case 1:
		o := &zzJ{kind: 'o'}
		n := zz.NondetChoice("nprops", W+1)
		for i := 0; i < n; i++ {
			// keys within one object are distinct (members are taken in key-list order)
			ki := zz.NondetChoice("key", len(zzKeys))
			for _, used := range o.keys {
				zz.Assume(used != zzKeys[ki])
			}
			o.keys = append(o.keys, zzKeys[ki])
			o.kids = append(o.kids, zzValue(depth-1, W))
		}
		return o
	case 2:
		a := &zzJ{kind: 'a'}
		n := zz.NondetChoice("nelems", W+1)
		for i := 0; i < n; i++ {
			a.kids = append(a.kids, zzValue(depth-1, W))
		}
		return a
	}
	return zzScalar()
}

// zzJEq: deep equality between what J2NodeToInterface returned and the abstract value.
func zzJEq(got interface{}, want *zzJ) bool {
	switch want.kind {
	case 'o':
		m, ok := got.(map[string]interface{})
		if !ok || len(m) != len(want.keys) {
			return false
		}
		for i, k := range want.keys {
			v, found := m[k]
			if !found || !zzJEq(v, want.kids[i]) {
				return false
			}
		}
		return true
	case 'a':
		a, ok := got.([]interface{})
		if !ok || len(a) != len(want.kids) {
			return false
		}
		for i := range a {
			if !zzJEq(a[i], want.kids[i]) {
				return false
			}
		}
		return true
	case 's':
		s, ok := got.(string)
		return ok && s == want.s
	case 'n':
		f, ok := got.(float64)
		return ok && f == want.f
	case 'b':
		b, ok := got.(bool)
		return ok && b == want.b
	}
	return got == nil
}

// text renders the abstract value as JSON text (used natively, where the real
// encoding/json tokenizer runs instead of the token model).
func (j *zzJ) text(out []byte) []byte {
	switch j.kind {
	case 'o':
		out = append(out, '{')
		for i, k := range j.keys {
			if i > 0 {
				out = append(out, ',')
			}
			out = append(out, '"')
			out = append(out, k...)
			out = append(out, '"', ':')
			out = j.kids[i].text(out)
		}
		return append(out, '}')
	case 'a':
		out = append(out, '[')
		for i, k := range j.kids {
			if i > 0 {
				out = append(out, ',')
			}
			out = k.text(out)
		}
		return append(out, ']')
	case 's':
		out = append(out, '"')
		out = append(out, j.s...)
		return append(out, '"')
	case 'n':
		return append(out, zzNumText(j.f)...)
	case 'b':
		if j.b {
			return append(out, "true"...)
		}
		return append(out, "false"...)
	}
	return append(out, "null"...)
}

// zzNewJSONReader: in the engine the decoder's Token method is redirected to the token model;
// natively the same abstract value is rendered as JSON text and goes through the real decoder.
func zzNewJSONReader(v *zzJ, xpath string, extra *zzJ) *JSONStreamReader {
	var data []byte
	if !zz.Symbolic() {
		data = v.text(nil)
		if extra != nil {
			data = append(data, ' ')
			data = extra.text(data)
		}
	}
	sp, err := NewJSONStreamReader(&zzChunkReader{data: data, failAt: -1}, xpath)
	zz.Assume(err == nil)
	if zz.Symbolic() {
		toks := v.tokens(nil)
		if extra != nil {
			toks = extra.tokens(toks)
		}
		zzJSONStreams[sp.d] = &toks
	}
	return sp
}

func zzHasEmptyKey(j *zzJ) bool {
	for i, k := range j.keys {
		_ = i
		if k == "" {
			return true
		}
	}
	for _, c := range j.kids {
		if zzHasEmptyKey(c) {
			return true
		}
	}
	return false
}

// C08JsonRoundtrip: the node tree built for a JSON value converts back to an equal value.
func C08JsonRoundtrip() {
	D := zz.Param("D", 2)
	W := zz.Param("W", 2)
	v := zzValue(D, W)
	sp := zzNewJSONReader(v, ".", nil)
	n, err := sp.Read()
	zz.Assert(err == nil && n != nil, "the whole document is delivered for target '.'")
	zz.Cover("delivered")
	got := J2NodeToInterface(n, true)
	// F11: an object whose only member has the empty-string key comes back as an array
	zz.KnownRegion("F11", zzHasEmptyKey(v))
	zz.Assert(zzJEq(got, v), "tree converts back to an equal JSON value")
	sp.Release(n)
	_, err = sp.Read()
	zz.Assert(err == io.EOF, "then EOF")
}

// C03JsonTokens: no panic and a terminal result for every grammar-valid token stream,
// including a second top-level value after the first (NDJSON, concatenated documents).
func C03JsonTokens() {
	zz.HangIsViolation()
	D := zz.Param("D", 2)
	W := zz.Param("W", 2)
	v := zzValue(D, W)
	var extra *zzJ
	second := zz.NondetBool("secondValue")
	if second {
		extra = zzValue(1, 1)
	}
	xp := []string{".", "/*", "//a"}[zz.NondetChoice("xpath", 3)]
	sp := zzNewJSONReader(v, xp, extra)
	// F8: a second top-level value makes cur walk above the root: nil dereference
	zz.KnownRegion("F8", second)
	for i := 0; i < 12; i++ {
		n, err := sp.Read()
		if err != nil {
			zz.Cover("terminal")
			return
		}
		sp.Release(n)
	}
	zz.Cover("many-records")
}

// build constructs the reference node tree for the abstract value directly.
func (j *zzJ) build(n *Node) {
	switch j.kind {
	case 'o':
		n.FormatSpecific = JSONTypeOf(n) | JSONObj
		for i, k := range j.keys {
			c := CreateJSONNode(ElementNode, k, JSONProp)
			AddChild(n, c)
			j.kids[i].build(c)
		}
	case 'a':
		n.FormatSpecific = JSONTypeOf(n) | JSONArr
		for _, kid := range j.kids {
			var c *Node
			switch kid.kind {
			case 'o':
				c = CreateJSONNode(ElementNode, "", 0)
			case 'a':
				c = CreateJSONNode(ElementNode, "", 0)
			default:
				c = CreateJSONNode(ElementNode, "", JSONProp)
			}
			AddChild(n, c)
			kid.build(c)
		}
	case 's':
		AddChild(n, CreateJSONNode(TextNode, j.s, JSONValueStr))
	case 'n':
		// the reference tree carries the number as encoding/json renders a float64 in a value
		// position ('f' format, shortest digits)
		AddChild(n, CreateJSONNode(TextNode, strconv.FormatFloat(j.f, 'f', -1, 64), JSONValueNum))
	case 'b':
		d := "false"
		if j.b {
			d = "true"
		}
		AddChild(n, CreateJSONNode(TextNode, d, JSONValueBool))
	default:
		AddChild(n, CreateJSONNode(TextNode, "", JSONValueNull))
	}
}

// zzJSer: names and text of a subtree (type flags are compared through J2NodeToInterface
// in C08JsonRoundtrip; here only selection matters).
func zzJSer(n *Node) string {
	s := "("
	if n.Type == TextNode {
		s += "T"
	} else {
		s += "E"
	}
	s += n.Data
	for c := n.FirstChild; c != nil; c = c.NextSibling {
		s += zzJSer(c)
	}
	return s + ")"
}

var zzJXPaths = []string{
	"/a",
	"/*",
	"//b",
	"/*[b='1']",
	"/a/*",
	"//*[.='1']",
	"/a[T]",
	"/*[b='1'][a]",
}

// zzJBase: the candidates (paths without the final step's filters), written out by hand.
var zzJBase = []string{"/a", "/*", "//b", "/*", "/a/*", "//*", "/a", "/*"}

// zzPads: a target xpath may come with surrounding whitespace (it is trimmed)
var zzPads = [][2]string{{"", ""}, {" ", " "}, {"", "\n"}, {"\t", " \t"}}

// C04JsonSelect: JSON counterpart of C04XmlSelect.
func C04JsonSelect() {
	D := zz.Param("D", 2)
	W := zz.Param("W", 2)
	xi := zz.NondetChoice("xpath", len(zzJXPaths))
	xp := zzJXPaths[xi]
	v := zzValue(D, W)
	refRoot := CreateJSONNode(DocumentNode, "", JSONRoot)
	v.build(refRoot)
	cands, err := MatchAll(refRoot, zzJBase[xi])
	zz.Assume(err == nil)
	full, err := MatchAll(refRoot, xp)
	zz.Assume(err == nil)
	pad := zzPads[zz.NondetChoice("padding", len(zzPads))]
	xp = pad[0] + xp + pad[1]
	var want []string
	for _, c := range cands {
		if zzHasAncestorIn(c, cands) {
			continue
		}
		sel := false
		for _, f := range full {
			if f == c {
				sel = true
			}
		}
		if sel {
			want = append(want, zzJSer(c))
		}
	}
	sp := zzNewJSONReader(v, xp, nil)
	got := 0
	for i := 0; i < 8; i++ {
		n, err := sp.Read()
		if err != nil {
			zz.Cover("eof")
			zz.Assert(err == io.EOF, "well-formed document ends with EOF")
			zz.Assert(got == len(want), "every node the xpath selects on the whole document was delivered")
			return
		}
		zz.Cover("delivered")
		zz.Assert(got < len(want), "nothing is delivered that the whole-document selection does not contain")
		if got < len(want) {
			zz.Assert(zzJSer(n) == want[got], "delivered node is the next selected node, complete")
		}
		got++
		sp.Release(n)
	}
	zz.Fail("no terminal result within the read bound")
}


// pieces renders the value as one text piece per token (separators glued to the front of the
// token they precede), so that the text of the first k tokens is a prefix of the document.
func (j *zzJ) pieces(out []string, sep string) []string {
	switch j.kind {
	case 'o':
		out = append(out, sep+"{")
		for i, k := range j.keys {
			s := ""
			if i > 0 {
				s = ","
			}
			out = append(out, s+"\""+k+"\"")
			out = j.kids[i].pieces(out, ":")
		}
		return append(out, "}")
	case 'a':
		out = append(out, sep+"[")
		for i, k := range j.kids {
			s := ""
			if i > 0 {
				s = ","
			}
			out = k.pieces(out, s)
		}
		return append(out, "]")
	}
	return append(out, sep+string(j.text(nil)))
}

// C16Json: the JSON stream reader over a source that delivers the first tokens of the document
// (or all of them) and then fails instead of ending: the failure is never turned into a clean
// EOF; results before it equal the fault-free run's.
func C16Json() {
	v := zzValue(zz.Param("D", 1), zz.Param("W", 2))
	// a container at top level: the document is complete with its closing delimiter (a bare
	// scalar only ends with the input, which the token model does not distinguish)
	zz.Assume(v.kind == 'o' || v.kind == 'a')
	xp := []string{".", "/*"}[zz.NondetChoice("xpath", 2)]
	toks := v.tokens(nil)
	cut := zz.NondetChoice("failAfterTokens", len(toks)+1)
	var data []byte
	if !zz.Symbolic() {
		// natively the source delivers the text of the first `cut` tokens, then fails
		for _, p := range v.pieces(nil, "")[:cut] {
			data = append(data, p...)
		}
	}
	src := &zzChunkReader{data: data, failAt: -1}
	if !zz.Symbolic() {
		src.failAt, src.ioErr = len(data), zzIOErr
	}
	sp, err := NewJSONStreamReader(src, xp)
	zz.Assume(err == nil)
	if zz.Symbolic() {
		part := append([]json.Token{}, toks[:cut]...)
		zzJSONStreams[sp.d] = &part
		zzJSONFailAfter[sp.d] = zzIOErr
	}
	for i := 0; i < len(toks)+2; i++ {
		n, err := sp.Read()
		if err == nil {
			sp.Release(n)
			continue
		}
		zz.Cover("failed")
		zz.Assert(err != io.EOF, "a failing source never ends in a clean EOF")
		return
	}
	zz.Fail("no error within the read bound")
}
