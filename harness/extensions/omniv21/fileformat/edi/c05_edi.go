package edi

import (
	"io"

	"github.com/jf-tech/omniparser/idr"
	zz "github.com/jf-tech/omniparser/zzverif"
)

// C05EdiTail: every input byte ends up in a returned segment, a skipped CR/LF-only token,
// or an error — trailing unterminated data is never silently dropped. Runs the real
// bufio.Scanner, the go-corelib split function and NonValidatingReader on symbolic bytes.
func C05EdiTail() {
	L := zz.Param("L", 4)
	in := zz.NondetBytes("in", L)
	for i := range in {
		b := in[i]
		zz.Assume(zz.ByteIn(b, "~*A\n?"))
	}
	decl := &FileDecl{SegDelim: "~", ElemDelim: "*", ReleaseChar: zzStrPtr("?")}
	r := NewNonValidatingReader(&zzChunkReader{data: in, failAt: -1}, decl)
	accounted := 0
	for i := 0; i < L+2; i++ {
		seg, err := r.Read()
		if err == io.EOF {
			zz.Cover("eof")
			rest := in[accounted:]
			onlyFiller := true
			for _, b := range rest {
				if b != '\n' {
					onlyFiller = false
				}
			}
			zz.Assert(onlyFiller, "EOF although non-filler input was never returned: trailing unterminated data silently dropped")
			return
		}
		if err != nil {
			zz.Cover("error")
			return
		}
		zz.Cover("segment")
		// the scanner hands out consecutive slices of the input; CR/LF-only tokens are skipped
		for accounted < len(in) && in[accounted] == '\n' && len(seg.Raw) > 0 && seg.Raw[0] != '\n' {
			accounted++
		}
		accounted += len(seg.Raw)
	}
	zz.Fail("no terminal result within L+2 reads")
}

// ---- hierarchy matching through the real EDI reader ----

type zzSegSpecOut struct {
	targets [][]int
	term    string
}

func zzSeg(name string, kids ...*SegDecl) *SegDecl {
	d := &SegDecl{Name: name, Children: kids}
	zzSegMinMax(d)
	return d
}

func zzSegGrp(name string, kids ...*SegDecl) *SegDecl {
	d := &SegDecl{Name: name, Type: zzStrPtr(segTypeGroup), Children: kids}
	zzSegMinMax(d)
	return d
}

func zzNondetPickIntPtr(name string, cands []*int) *int {
	return cands[zz.PickIndex(name, len(cands))]
}

func zzSegMinMax(d *SegDecl) {
	// absent min/max default to 1/1; present: min 0..2, max 1..3 or -1 (unbounded).
	// Presence is a symbolic pointer selection, so nothing forks here.
	mn := zz.NondetInt(d.Name+".min", 0, 2)
	m := zz.NondetInt(d.Name+".max", 1, 4)
	mx := zz.IteInt(m == 4, -1, m)
	d.Min = zzNondetPickIntPtr(d.Name+".minset", []*int{nil, &mn})
	d.Max = zzNondetPickIntPtr(d.Name+".maxset", []*int{nil, &mx})
}

func zzSegShape(k int) ([]*SegDecl, []*SegDecl) {
	switch k {
	case 0:
		a := zzSeg("a")
		return []*SegDecl{a}, []*SegDecl{a}
	case 1:
		a, b := zzSeg("a"), zzSeg("b")
		return []*SegDecl{a, b}, []*SegDecl{a, b}
	case 2:
		b := zzSeg("b")
		a := zzSeg("a", b)
		return []*SegDecl{a}, []*SegDecl{a, b}
	case 3:
		a, b := zzSeg("a"), zzSeg("b")
		g := zzSegGrp("G", a, b)
		return []*SegDecl{g}, []*SegDecl{g, a, b}
	case 4:
		a, b, c := zzSeg("a"), zzSeg("b"), zzSeg("c")
		g := zzSegGrp("G", a, b)
		return []*SegDecl{g, c}, []*SegDecl{g, a, b, c}
	case 5:
		a, b := zzSeg("a"), zzSeg("b")
		h := zzSegGrp("H", a)
		g := zzSegGrp("G", h, b)
		return []*SegDecl{g}, []*SegDecl{g, h, a, b}
	case 6:
		a, b, c := zzSeg("a"), zzSeg("b"), zzSeg("c")
		g := zzSegGrp("G", b, c)
		return []*SegDecl{a, g}, []*SegDecl{a, g, b, c}
	default:
		c := zzSeg("c")
		b := zzSeg("b", c)
		a := zzSeg("a", b)
		return []*SegDecl{a}, []*SegDecl{a, b, c}
	}
}

const zzNumSegShapes = 8

type zzSegSpec struct {
	units []byte
	pos   int
	out   zzSegSpecOut
	cur   []int
	inTgt bool
}

func zzSegFirstSolid(d *SegDecl) *SegDecl {
	for d.isGroup() && len(d.Children) > 0 {
		d = d.Children[0]
	}
	if d.isGroup() {
		return nil
	}
	return d
}

func (s *zzSegSpec) list(decls []*SegDecl) string {
	for _, d := range decls {
		cnt := 0
		for cnt < d.maxOccurs() {
			fs := zzSegFirstSolid(d)
			if fs == nil || s.pos >= len(s.units) || s.units[s.pos] != fs.Name[0] {
				break
			}
			if d.IsTarget {
				s.cur = nil
				s.inTgt = true
			}
			if !d.isGroup() {
				if s.inTgt {
					s.cur = append(s.cur, s.pos)
				}
				s.pos++
			}
			if e := s.list(d.Children); e != "" {
				return e
			}
			if d.IsTarget {
				s.out.targets = append(s.out.targets, s.cur)
				s.inTgt = false
			}
			cnt++
		}
		if cnt < d.minOccurs() {
			return "min:" + d.Name
		}
	}
	return ""
}

func zzSegLeaves(n *idr.Node, acc []int) []int {
	if n.Type == idr.TextNode {
		return append(acc, int(n.Data[0]-'0'))
	}
	for c := n.FirstChild; c != nil; c = c.NextSibling {
		zz.Assert(c.Parent == n, "delivered tree: child's parent link")
		acc = zzSegLeaves(c, acc)
	}
	return acc
}

// C05EdiHier: the real ediReader (scanner, tokenizer, matcher) on every sequence of ≤ L
// one-letter segments "x*<index>~" against the reference greedy matcher.
func C05EdiHier() {
	L := zz.Param("L", 3)
	shape := zz.NondetChoice("shape", zzNumSegShapes)
	if s := zz.Param("shape", -1); s >= 0 {
		zz.Assume(shape == s)
	}
	top, all := zzSegShape(shape)
	tgt := zz.NondetChoice("target", len(all))
	all[tgt].IsTarget = true
	for _, d := range all {
		if !d.isGroup() {
			d.Elems = []Elem{{Name: "i", Index: 1}}
		}
	}
	decl := &FileDecl{SegDelim: "~", ElemDelim: "*", SegDecls: top}
	zz.Assume((&ediValidateCtx{}).validateFileDecl(decl) == nil)
	if zz.Param("FREEZE", 0) == 1 {
		zz.Freeze(decl) // C14: the validated declarations are shared between goroutines
	}

	n := zz.NondetInt("len", 0, L)
	units := make([]byte, 0, L)
	input := make([]byte, 0, 4*L)
	for i := 0; i < L; i++ {
		if i < n {
			// concrete 4-way choice per unit: the tokenizer is not the subject here
			u := "abcz"[zz.NondetChoice("unit", 4)]
			units = append(units, u)
			input = append(input, u, '*', byte('0'+i), '~')
		}
	}
	r, err := NewReader("in", &zzChunkReader{data: input, failAt: -1}, decl, "")
	zz.Assume(err == nil)
	s := &zzSegSpec{units: units}
	e := s.list(top)
	// The EDI reader lets the whole top-level declaration list repeat: once every
	// declaration is complete, a segment that starts the first declaration again opens a new
	// round (edi/format_test.go TestCreateFormatReader relies on it).
	for k := 0; k < L && e == "" && len(top) > 0; k++ {
		fs := zzSegFirstSolid(top[0])
		if fs == nil || s.pos >= len(units) || units[s.pos] != fs.Name[0] {
			break
		}
		e = s.list(top)
	}
	switch {
	case e != "":
		s.out.term = e
	case s.pos < len(units):
		s.out.term = "unexpected"
	default:
		s.out.term = "eof"
	}
	spec := s.out

	delivered := 0
	var last *idr.Node
	callRelease := zz.NondetBool("callRelease")
	for i := 0; i < L+2; i++ {
		if last != nil && callRelease {
			r.Release(last)
		}
		node, err := r.Read()
		if err != nil {
			zz.Assert(node == nil, "error comes with a nil node")
			zz.Assert(delivered == len(spec.targets), "all targets of the reference were delivered before the terminal result")
			if err == io.EOF {
				zz.Cover("eof")
				zz.Assert(spec.term == "eof", "EOF only where the reference ends cleanly")
			} else {
				zz.Cover("fatal")
				zz.Assert(IsErrInvalidEDI(err), "structural errors are ErrInvalidEDI")
				zz.Assert(!r.IsContinuableError(err), "structural errors are fatal")
				zz.Assert(spec.term != "eof", "fatal error only where the reference fails")
			}
			return
		}
		zz.Cover("delivered")
		zz.Assert(delivered < len(spec.targets), "no more targets than the reference delivers")
		got := zzSegLeaves(node, nil)
		want := spec.targets[delivered]
		zz.Assert(len(got) == len(want), "target holds exactly the segments of the reference instance (count)")
		for k := range got {
			zz.Assert(got[k] == want[k], "target holds exactly the segments of the reference instance (order)")
		}
		zz.Assert(node.Data == all[tgt].Name, "delivered node is an instance of the target declaration")
		delivered++
		last = node
	}
	zz.Fail("no terminal result within L+2 reads")
}
