package main

import (
	"fmt"
	"go/token"
	"go/types"
	"strconv"
	"strings"

	"golang.org/x/tools/go/ssa"
)

type extFn func(e *Exec, caller *frame, pos token.Pos, fn *ssa.Function, args []Value) Value

var externals = map[string]extFn{}

const zz = "github.com/jf-tech/omniparser/zzverif."

func init() {
	for k, v := range map[string]extFn{
		zz + "NondetInt":    extNondetInt,
		zz + "NondetBool":   extNondetBool,
		zz + "NondetByte":   extNondetByte,
		zz + "NondetBytes":  extNondetBytes,
		zz + "NondetBytesN": extNondetBytesN,
		zz + "NondetString": extNondetString,
		zz + "NondetChoice": extNondetChoice,
		zz + "Assume":       extAssume,
		zz + "Assert":       extAssert,
		zz + "Cover":        extCover,
		zz + "Observe":      extObserve,
		zz + "Symbolic":     func(e *Exec, _ *frame, _ token.Pos, _ *ssa.Function, _ []Value) Value { return e.ts.True },
		zz + "KnownFinding": extKnownFinding,
		zz + "Param":        extParam,
		zz + "MapOrder":     extMapOrder,
		zz + "PoolMode":     extPoolMode,
		zz + "Freeze":       extFreeze,
		zz + "Par":          extPar,
		zz + "SetGlobalInt": extSetGlobalInt,
		zz + "Stress":       func(e *Exec, _ *frame, _ token.Pos, _ *ssa.Function, a []Value) Value { return e.ts.Const(64, 1) },
		zz + "Fail":         extFail,
		zz + "HangIsViolation": func(e *Exec, _ *frame, _ token.Pos, _ *ssa.Function, _ []Value) Value {
			e.ghost["hangviolation"] = e.ts.True
			return nil
		},
		zz + "IteInt": func(e *Exec, _ *frame, _ token.Pos, _ *ssa.Function, a []Value) Value {
			return e.ts.Ite(a[0].(*Term), a[1].(*Term), a[2].(*Term))
		},
		zz + "ByteIn": func(e *Exec, _ *frame, _ token.Pos, _ *ssa.Function, a []Value) Value {
			b := a[0].(*Term)
			set := e.concStr(a[1], "ByteIn set")
			r := e.ts.False
			for i := 0; i < len(set); i++ {
				r = e.ts.Or(r, e.ts.Eq(b, e.ts.Const(8, uint64(set[i]))))
			}
			return r
		},
		zz + "ByteRange": func(e *Exec, _ *frame, _ token.Pos, _ *ssa.Function, a []Value) Value {
			b := a[0].(*Term)
			return e.ts.And(e.ts.Cmp(OpULe, a[1].(*Term), b), e.ts.Cmp(OpULe, b, a[2].(*Term)))
		},
		zz + "Implies": func(e *Exec, _ *frame, _ token.Pos, _ *ssa.Function, a []Value) Value {
			return e.ts.Implies(a[0].(*Term), a[1].(*Term))
		},

		"fmt.Sprintf":  extSprintf,
		"fmt.Errorf":   extErrorf,
		"fmt.Sprint":   extSprint,
		"fmt.Println":  extNop,
		"fmt.Printf":   extNop,
		"fmt.Fprintf":  extNop,
		"fmt.Fprintln": extNop,

		"(*sync.Pool).Get":        extPoolGet,
		"(*sync.Pool).Put":        extPoolPut,
		"(*sync.Mutex).Lock":      extMutexLock,
		"(*sync.Mutex).Unlock":    extMutexUnlock,
		"(*sync.RWMutex).Lock":    extMutexLock,
		"(*sync.RWMutex).Unlock":  extMutexUnlock,
		"(*sync.RWMutex).RLock":   extRLock,
		"(*sync.RWMutex).RUnlock": extRUnlock,
		"(*sync.Once).Do":         extOnceDo,

		"sync/atomic.AddInt64":   extAtomicAdd,
		"sync/atomic.AddInt32":   extAtomicAdd,
		"sync/atomic.AddUint64":  extAtomicAdd,
		"sync/atomic.AddUint32":  extAtomicAdd,
		"sync/atomic.LoadInt64":  extAtomicLoad,
		"sync/atomic.LoadInt32":  extAtomicLoad,
		"sync/atomic.LoadUint64": extAtomicLoad,
		"sync/atomic.LoadUint32": extAtomicLoad,
		"sync/atomic.StoreInt64": extAtomicStore,
		"sync/atomic.StoreInt32": extAtomicStore,

		"strings.Index":          extIndex,
		"bytes.Index":            extIndex,
		"strings.IndexByte":      extIndexByte,
		"bytes.IndexByte":        extIndexByte,
		"strings.LastIndex":      extLastIndex,
		"bytes.LastIndex":        extLastIndex,
		"strings.LastIndexByte":  extLastIndexByte,
		"bytes.LastIndexByte":    extLastIndexByte,
		"strings.Count":          extCount,
		"bytes.Count":            extCount,
		"bytes.Equal":            extBytesEqual,
		"strings.HasPrefix":      extHasPrefix,
		"bytes.HasPrefix":        extHasPrefix,
		"strings.HasSuffix":      extHasSuffix,
		"bytes.HasSuffix":        extHasSuffix,
		"strings.Contains":       extContains,
		"bytes.Contains":         extContains,
		"strings.Compare":        extCompare,
		"bytes.Compare":          extCompare,
		"internal/bytealg.IndexByte":       extIndexByte,
		"internal/bytealg.IndexByteString": extIndexByte,
		"internal/bytealg.Index":           extIndex,
		"internal/bytealg.IndexString":     extIndex,
		"internal/bytealg.Count":           extCountByte,
		"internal/bytealg.CountString":     extCountByte,
		"internal/bytealg.Equal":           extBytesEqual,
		"internal/bytealg.Compare":         extCompare,
		"internal/bytealg.MakeNoZero":      extMakeNoZero,
		"internal/stringslite.Index":       extIndex,
		"internal/stringslite.IndexByte":   extIndexByte,
		"internal/stringslite.HasPrefix":   extHasPrefix,
		"internal/stringslite.HasSuffix":   extHasSuffix,

		"(*strings.Builder).WriteString": extBuilderWriteString,
		"(*strings.Builder).WriteByte":   extBuilderWriteByte,
		"(*strings.Builder).WriteRune":   extBuilderWriteRune,
		"(*strings.Builder).Write":       extBuilderWrite,
		"(*strings.Builder).String":      extBuilderString,
		"(*strings.Builder).Len":         extBuilderLen,
		"(*strings.Builder).Reset":       extBuilderReset,
		"(*strings.Builder).Grow":        extNop,

		"unicode/utf8.DecodeRune":         extDecodeRune,
		"unicode/utf8.DecodeRuneInString": extDecodeRune,

		"sort.Slice":       extSortSlice,
		"sort.SliceStable": extSortSlice,
		"sort.Strings":     extSortStrings,

		"strconv.Itoa":        extItoa,
		"strconv.FormatInt":   extFormatInt,
		"strconv.ParseFloat":  extParseFloat,
		"strconv.FormatFloat": extFormatFloat,
		"strconv.Quote":       extQuote,

		"(*github.com/jf-tech/go-corelib/ios.LineNumReportingCsvReader).LineNum": extCsvLineNum,
		"(*strings.Replacer).Replace": extReplacerReplace,
		"internal/stringslite.Clone": func(e *Exec, _ *frame, _ token.Pos, _ *ssa.Function, a []Value) Value { return a[0] },
		"strings.Clone":              func(e *Exec, _ *frame, _ token.Pos, _ *ssa.Function, a []Value) Value { return a[0] },
		"encoding/json.Marshal": extJSONMarshal,
		"time.runtimeNano": func(e *Exec, _ *frame, _ token.Pos, _ *ssa.Function, a []Value) Value { return e.ts.Const(64, 1000) },
		"time.now": func(e *Exec, _ *frame, _ token.Pos, _ *ssa.Function, a []Value) Value {
			return TupleV{e.ts.Const(64, 1700000000), e.ts.Const(32, 0), e.ts.Const(64, 2000)}
		},
		"(*github.com/jf-tech/omniparser/idr.XMLStreamReader).AtLine": func(e *Exec, _ *frame, _ token.Pos, _ *ssa.Function, a []Value) Value {
			return e.ts.Const(64, 1) // reflection on xml.Decoder's line counter; only used in messages
		},
		"runtime.KeepAlive": extNop,
		"runtime.GC":        extNop,
		"os.Getenv":         func(e *Exec, _ *frame, _ token.Pos, _ *ssa.Function, _ []Value) Value { return StrV{} },
	} {
		externals[k] = v
	}
}

func extNop(e *Exec, _ *frame, _ token.Pos, fn *ssa.Function, _ []Value) Value {
	res := fn.Signature.Results()
	switch res.Len() {
	case 0:
		return nil
	case 1:
		return e.zero(res.At(0).Type())
	}
	return e.zero(res)
}

func (e *Exec) concStr(v Value, what string) string {
	s, ok := v.(StrV).conc()
	if !ok {
		panic(unsupported(what + ": string argument must be concrete"))
	}
	return s
}

func (e *Exec) freshName(name string) string {
	k := e.nondetCnt[name]
	e.nondetCnt[name] = k + 1
	return fmt.Sprintf("%s#%d", name, k)
}

func (e *Exec) newVar(name string, w int) *Term {
	t := e.ts.Var(name, w)
	e.vec = append(e.vec, VecEntry{Name: name, T: t})
	return t
}

func extNondetInt(e *Exec, _ *frame, _ token.Pos, _ *ssa.Function, args []Value) Value {
	name := e.freshName(e.concStr(args[0], "NondetInt"))
	lo, hi := args[1].(*Term), args[2].(*Term)
	if lo.IsConst() && hi.IsConst() && lo.val == hi.val {
		e.vec = append(e.vec, VecEntry{Name: name, Val: lo.SVal()})
		return lo
	}
	v := e.newVar(name, 64)
	e.ts.ClearVarRange(v)
	c := e.ts.And(e.ts.Cmp(OpSLe, lo, v), e.ts.Cmp(OpSLe, v, hi))
	if lo.IsConst() && hi.IsConst() {
		if lo.SVal() > hi.SVal() {
			panic(pathEnd{"empty nondet range"})
		}
		if lo.SVal() >= 0 {
			defer e.ts.SetVarRange(v, lo.val, hi.val)
		}
		e.assertPC(c) // fresh variable, non-empty constant range: always satisfiable
	} else {
		e.assume(c)
	}
	return v
}

func extNondetBool(e *Exec, _ *frame, _ token.Pos, _ *ssa.Function, args []Value) Value {
	name := e.freshName(e.concStr(args[0], "NondetBool"))
	return e.newVar(name, 0)
}

func extNondetByte(e *Exec, _ *frame, _ token.Pos, _ *ssa.Function, args []Value) Value {
	name := e.freshName(e.concStr(args[0], "NondetByte"))
	return e.newVar(name, 8)
}

func (e *Exec) nondetByteTerms(name string, n int) []*Term {
	b := make([]*Term, n)
	for i := range b {
		b[i] = e.newVar(fmt.Sprintf("%s[%d]", name, i), 8)
	}
	return b
}

func extNondetBytes(e *Exec, _ *frame, _ token.Pos, _ *ssa.Function, args []Value) Value {
	name := e.freshName(e.concStr(args[0], "NondetBytes"))
	mx := int(e.concretizeInt(args[1].(*Term), "NondetBytes max"))
	n := e.choose(mx+1, "len")
	e.vec = append(e.vec, VecEntry{Name: name + ".len", Val: int64(n)})
	return termsToSlice(e.nondetByteTerms(name, n))
}

func extNondetBytesN(e *Exec, _ *frame, _ token.Pos, _ *ssa.Function, args []Value) Value {
	name := e.freshName(e.concStr(args[0], "NondetBytesN"))
	n := int(e.concretizeInt(args[1].(*Term), "NondetBytesN n"))
	return termsToSlice(e.nondetByteTerms(name, n))
}

func extNondetString(e *Exec, _ *frame, _ token.Pos, _ *ssa.Function, args []Value) Value {
	name := e.freshName(e.concStr(args[0], "NondetString"))
	mx := int(e.concretizeInt(args[1].(*Term), "NondetString max"))
	n := e.choose(mx+1, "len")
	e.vec = append(e.vec, VecEntry{Name: name + ".len", Val: int64(n)})
	return StrV{e.nondetByteTerms(name, n)}
}

func extNondetChoice(e *Exec, _ *frame, _ token.Pos, _ *ssa.Function, args []Value) Value {
	name := e.freshName(e.concStr(args[0], "NondetChoice"))
	n := int(e.concretizeInt(args[1].(*Term), "NondetChoice n"))
	k := e.choose(n, name)
	e.vec = append(e.vec, VecEntry{Name: name, Val: int64(k)})
	return e.ts.Const(64, uint64(k))
}

func extAssume(e *Exec, _ *frame, _ token.Pos, _ *ssa.Function, args []Value) Value {
	e.assume(args[0].(*Term))
	return nil
}

func extAssert(e *Exec, fr *frame, pos token.Pos, _ *ssa.Function, args []Value) Value {
	e.assertProp(args[0].(*Term), e.concStr(args[1], "Assert label"), e.posStr(pos))
	return nil
}

func extFail(e *Exec, fr *frame, pos token.Pos, _ *ssa.Function, args []Value) Value {
	e.assertProp(e.ts.False, e.concStr(args[0], "Fail label"), e.posStr(pos))
	return nil
}

func extCover(e *Exec, _ *frame, _ token.Pos, _ *ssa.Function, args []Value) Value {
	e.cur.covers = append(e.cur.covers, e.concStr(args[0], "Cover label"))
	return nil
}

func extObserve(e *Exec, _ *frame, _ token.Pos, _ *ssa.Function, args []Value) Value {
	label := e.concStr(args[0], "Observe label")
	var vals []Value
	if s, ok := args[1].(SliceV); ok {
		for _, v := range s.data {
			vals = append(vals, v)
		}
	}
	e.cur.observe = append(e.cur.observe, obsEntry{label, vals})
	return nil
}

func extKnownFinding(e *Exec, _ *frame, _ token.Pos, _ *ssa.Function, args []Value) Value {
	id := e.concStr(args[0], "KnownFinding")
	if e.cfg.Known[id] {
		e.cur.knownSeen = append(e.cur.knownSeen, id)
		return e.ts.True
	}
	return e.ts.False
}

func extParam(e *Exec, _ *frame, _ token.Pos, _ *ssa.Function, args []Value) Value {
	name := e.concStr(args[0], "Param")
	if v, ok := e.cfg.Params[name]; ok {
		return e.ts.Const(64, uint64(v))
	}
	return args[1]
}

func extMapOrder(e *Exec, _ *frame, _ token.Pos, _ *ssa.Function, args []Value) Value {
	e.mapOrderMode = int(e.concretizeInt(args[0].(*Term), "MapOrder"))
	return nil
}

// renderObserve formats Observe entries under a model, the way the native zzverif does.
func (e *Exec) renderObserve(vec map[string]int64) []string {
	env := map[string]uint64{}
	for k, v := range vec {
		env[k] = uint64(v)
	}
	memo := map[*Term]uint64{}
	var out []string
	for _, o := range e.cur.observe {
		var sb strings.Builder
		sb.WriteString(o.label + ":")
		for _, v := range o.vals {
			sb.WriteString(" " + e.renderVal(v, env, memo))
		}
		out = append(out, sb.String())
	}
	return out
}

func (e *Exec) renderVal(v Value, env map[string]uint64, memo map[*Term]uint64) string {
	switch x := v.(type) {
	case IfaceV:
		if x.t == nil {
			return "<nil>"
		}
		switch y := x.v.(type) {
		case *Term:
			val := y.Eval(env, memo)
			w, signed, _ := intWidth(x.t)
			if w == 0 {
				if val != 0 {
					return "true"
				}
				return "false"
			}
			if signed {
				return strconv.FormatInt(sext64(val, w), 10)
			}
			return strconv.FormatUint(val, 10)
		case StrV:
			buf := make([]byte, len(y.b))
			for i, t := range y.b {
				buf[i] = byte(t.Eval(env, memo))
			}
			return strconv.Quote(string(buf))
		case SliceV:
			if b, ok := bytesOf(y); ok {
				buf := make([]byte, len(b))
				for i, t := range b {
					buf[i] = byte(t.Eval(env, memo))
				}
				return strconv.Quote(string(buf))
			}
		case PtrV:
			if y.isNil() {
				return "nilptr"
			}
			return "ptr"
		case FloatV:
			return fmt.Sprint(y.f)
		}
		return "?" + fmt.Sprintf("%T", x.v)
	}
	return "?"
}

// ---- fmt ----

func (e *Exec) goArg(v Value) (interface{}, bool) {
	iv, ok := v.(IfaceV)
	if !ok {
		return nil, false
	}
	if iv.t == nil {
		return nil, true
	}
	// error / Stringer
	if m := e.findMethod(iv.t, "Error"); m != nil && m.Signature.Params().Len() == 0 {
		r := e.call(nil, 0, m, []Value{iv.v})
		if s, ok := r.(StrV); ok {
			if c, ok := s.conc(); ok {
				return fmtError(c), true
			}
		}
		return nil, false
	}
	if m := e.findMethod(iv.t, "String"); m != nil && m.Signature.Params().Len() == 0 && m.Blocks != nil {
		r := e.call(nil, 0, m, []Value{iv.v})
		if s, ok := r.(StrV); ok {
			if c, ok := s.conc(); ok {
				return fmtStringer(c), true
			}
		}
		return nil, false
	}
	switch x := iv.v.(type) {
	case *Term:
		if !x.IsConst() {
			return nil, false
		}
		w, signed, _ := intWidth(iv.t)
		if w == 0 {
			return x.val == 1, true
		}
		if b, ok := iv.t.Underlying().(*types.Basic); ok && b.Kind() == types.Int32 && iv.t.String() == "rune" {
			return rune(x.SVal()), true
		}
		if signed {
			return x.SVal(), true
		}
		if w == 8 {
			return uint8(x.val), true
		}
		return x.val, true
	case StrV:
		c, ok := x.conc()
		return c, ok
	case FloatV:
		return x.f, true
	case SliceV:
		if b, ok := bytesOf(x); ok {
			s, ok := StrV{b}.conc()
			return []byte(s), ok
		}
	}
	return nil, false
}

type fmtError string

func (f fmtError) Error() string { return string(f) }

type fmtStringer string

func (f fmtStringer) String() string { return string(f) }

func (e *Exec) sprintf(format Value, argv Value) StrV {
	f, ok := format.(StrV).conc()
	if !ok {
		return e.strConst("<fmt:symbolic-format>")
	}
	var goArgs []interface{}
	if s, ok := argv.(SliceV); ok {
		for _, a := range s.data {
			g, ok := e.goArg(a)
			if !ok {
				return e.strConst("<fmt:" + f + ">")
			}
			goArgs = append(goArgs, g)
		}
	}
	return e.strConst(fmt.Sprintf(f, goArgs...))
}

func extSprintf(e *Exec, _ *frame, _ token.Pos, _ *ssa.Function, args []Value) Value {
	return e.sprintf(args[0], args[1])
}

func extSprint(e *Exec, _ *frame, _ token.Pos, _ *ssa.Function, args []Value) Value {
	var goArgs []interface{}
	if s, ok := args[0].(SliceV); ok {
		for _, a := range s.data {
			g, ok := e.goArg(a)
			if !ok {
				return e.strConst("<fmt.Sprint>")
			}
			goArgs = append(goArgs, g)
		}
	}
	return e.strConst(fmt.Sprint(goArgs...))
}

func (e *Exec) fnByName(pkgPath, name string) *ssa.Function {
	for _, p := range e.prog.AllPackages() {
		if p.Pkg.Path() == pkgPath {
			if f := p.Func(name); f != nil {
				return f
			}
		}
	}
	panic(unsupported("function not found: " + pkgPath + "." + name))
}

func extErrorf(e *Exec, fr *frame, pos token.Pos, _ *ssa.Function, args []Value) Value {
	s := e.sprintf(args[0], args[1])
	return e.call(fr, pos, e.fnByName("errors", "New"), []Value{s})
}

// ---- sync ----

type poolBag struct {
	items []Value
}

func extPoolMode(e *Exec, _ *frame, _ token.Pos, _ *ssa.Function, args []Value) Value {
	e.ghost["poolmode"] = args[0]
	return nil
}

func (e *Exec) poolMode() int {
	if v, ok := e.ghost["poolmode"]; ok {
		return int(v.(*Term).SVal())
	}
	return 1
}

func structFieldIndex(t types.Type, name string) int {
	st := t.Underlying().(*types.Struct)
	for i := 0; i < st.NumFields(); i++ {
		if st.Field(i).Name() == name {
			return i
		}
	}
	return -1
}

func extPoolGet(e *Exec, fr *frame, pos token.Pos, fn *ssa.Function, args []Value) Value {
	p, ok := args[0].(PtrV).single()
	if !ok {
		panic(unsupported("sync.Pool through multi-target pointer"))
	}
	e.parYield("Pool.Get", nil)
	bag := e.poolBags[p]
	if bag == nil {
		bag = &poolBag{}
		e.poolBags[p] = bag
	}
	mode := e.poolMode()
	if len(bag.items) > 0 && mode != 0 {
		k := len(bag.items) - 1
		if mode == 2 {
			// any pooled item, or a fresh one
			c := e.choose(len(bag.items)+1, "pool.Get")
			if c == len(bag.items) {
				k = -1
			} else {
				k = c
			}
		}
		if k >= 0 {
			it := bag.items[k]
			bag.items = append(bag.items[:k:k], bag.items[k+1:]...)
			e.markPooled(it, false)
			e.parPoolGot(it)
			return it
		}
	}
	poolT := fn.Signature.Recv().Type().(*types.Pointer).Elem()
	newF := (*p).(StructV)[structFieldIndex(poolT, "New")]
	if !isFuncVal(newF) {
		return IfaceV{}
	}
	return e.call(fr, pos, newF, nil)
}

func extPoolPut(e *Exec, fr *frame, pos token.Pos, fn *ssa.Function, args []Value) Value {
	p, ok := args[0].(PtrV).single()
	if !ok {
		panic(unsupported("sync.Pool through multi-target pointer"))
	}
	e.parYield("Pool.Put", nil)
	bag := e.poolBags[p]
	if bag == nil {
		bag = &poolBag{}
		e.poolBags[p] = bag
	}
	x := args[1].(IfaceV)
	if x.t == nil {
		return nil
	}
	e.parPoolPut(x)
	for _, it := range bag.items {
		if e.equal(x.t, it, x).IsTrue() {
			e.softViolation("pool: object put twice (double release)", e.posStr(pos))
		}
	}
	bag.items = append(bag.items, x)
	e.markPooled(x, true)
	return nil
}

// markPooled flags (or clears) the cells of an object that sits in a sync.Pool; any load or
// store through them is a use-after-release.
func (e *Exec) markPooled(x Value, on bool) {
	iv, ok := x.(IfaceV)
	if !ok {
		return
	}
	p, ok := iv.v.(PtrV)
	if !ok {
		return
	}
	c, ok := p.single()
	if !ok {
		return
	}
	if e.pooled == nil {
		e.pooled = map[*Value]bool{}
	}
	set := func(q *Value) {
		if on {
			e.pooled[q] = true
		} else {
			delete(e.pooled, q)
		}
	}
	set(c)
	if sv, ok := (*c).(StructV); ok {
		for i := range sv {
			set(&sv[i])
		}
	}
}

func extOnceDo(e *Exec, fr *frame, pos token.Pos, fn *ssa.Function, args []Value) Value {
	p, _ := args[0].(PtrV).single()
	if e.onceDone == nil {
		e.onceDone = map[*Value]bool{}
	}
	if e.parActive() {
		ps := e.par
		e.parYield("Once.Do", func() bool { return ps.onceRun[p] == 0 })
		ps.acquire(ps.cur, ps.syncClk[onceKey{p}])
		if e.onceDone[p] {
			return nil
		}
		me := ps.cur
		ps.onceRun[p] = me.id + 1
		e.call(fr, pos, args[1], nil)
		ps.onceRun[p] = 0
		e.onceDone[p] = true
		ps.releaseTo(me, onceKey{p})
		return nil
	}
	if e.onceDone[p] {
		return nil
	}
	e.onceDone[p] = true
	e.call(fr, pos, args[1], nil)
	return nil
}

func extAtomicAdd(e *Exec, fr *frame, pos token.Pos, fn *ssa.Function, args []Value) Value {
	return e.parAtomic(args[0], func() Value {
		p := args[0].(PtrV)
		old := e.load(fr, nil, p).(*Term)
		nv := e.ts.Bin(OpAdd, old, args[1].(*Term))
		e.store(fr, nil, fn.Signature.Params().At(1).Type(), p, nv)
		return nv
	})
}

func extAtomicLoad(e *Exec, fr *frame, pos token.Pos, fn *ssa.Function, args []Value) Value {
	return e.parAtomic(args[0], func() Value { return e.load(fr, nil, args[0].(PtrV)) })
}

func extAtomicStore(e *Exec, fr *frame, pos token.Pos, fn *ssa.Function, args []Value) Value {
	return e.parAtomic(args[0], func() Value {
		e.store(fr, nil, fn.Signature.Params().At(1).Type(), args[0].(PtrV), args[1])
		return nil
	})
}

// ---- strings / bytes ----

func mustBytes(v Value) []*Term {
	b, ok := bytesOf(v)
	if !ok {
		panic(unsupported(fmt.Sprintf("expected bytes, got %T", v)))
	}
	return b
}

func (e *Exec) matchAt(s, sep []*Term, i int) *Term {
	c := e.ts.True
	for j := range sep {
		c = e.ts.And(c, e.ts.Eq(s[i+j], sep[j]))
		if c.IsFalse() {
			break
		}
	}
	return c
}

func (e *Exec) intV(i int) *Term { return e.ts.Const(64, uint64(int64(i))) }

func extIndex(e *Exec, _ *frame, _ token.Pos, _ *ssa.Function, args []Value) Value {
	s, sep := mustBytes(args[0]), mustBytes(args[1])
	for i := 0; i+len(sep) <= len(s); i++ {
		if e.decide(e.matchAt(s, sep, i)) {
			return e.intV(i)
		}
	}
	return e.intV(-1)
}

func extLastIndex(e *Exec, _ *frame, _ token.Pos, _ *ssa.Function, args []Value) Value {
	s, sep := mustBytes(args[0]), mustBytes(args[1])
	for i := len(s) - len(sep); i >= 0; i-- {
		if e.decide(e.matchAt(s, sep, i)) {
			return e.intV(i)
		}
	}
	return e.intV(-1)
}

func extIndexByte(e *Exec, _ *frame, _ token.Pos, _ *ssa.Function, args []Value) Value {
	s := mustBytes(args[0])
	c := args[1].(*Term)
	for i := range s {
		if e.decide(e.ts.Eq(s[i], c)) {
			return e.intV(i)
		}
	}
	return e.intV(-1)
}

func extLastIndexByte(e *Exec, _ *frame, _ token.Pos, _ *ssa.Function, args []Value) Value {
	s := mustBytes(args[0])
	c := args[1].(*Term)
	for i := len(s) - 1; i >= 0; i-- {
		if e.decide(e.ts.Eq(s[i], c)) {
			return e.intV(i)
		}
	}
	return e.intV(-1)
}

func extCount(e *Exec, _ *frame, _ token.Pos, _ *ssa.Function, args []Value) Value {
	s, sep := mustBytes(args[0]), mustBytes(args[1])
	if len(sep) == 0 {
		// utf8.RuneCount(s)+1
		n := 0
		rest := s
		for len(rest) > 0 {
			_, sz := e.decodeRune(rest)
			rest = rest[sz:]
			n++
		}
		return e.intV(n + 1)
	}
	n := 0
	for i := 0; i+len(sep) <= len(s); {
		if e.decide(e.matchAt(s, sep, i)) {
			n++
			i += len(sep)
		} else {
			i++
		}
	}
	return e.intV(n)
}

func extCountByte(e *Exec, _ *frame, _ token.Pos, _ *ssa.Function, args []Value) Value {
	s := mustBytes(args[0])
	c := args[1].(*Term)
	n := 0
	for i := range s {
		if e.decide(e.ts.Eq(s[i], c)) {
			n++
		}
	}
	return e.intV(n)
}

func extBytesEqual(e *Exec, _ *frame, _ token.Pos, _ *ssa.Function, args []Value) Value {
	return e.strEq(StrV{mustBytes(args[0])}, StrV{mustBytes(args[1])})
}

func extHasPrefix(e *Exec, _ *frame, _ token.Pos, _ *ssa.Function, args []Value) Value {
	s, p := mustBytes(args[0]), mustBytes(args[1])
	if len(p) > len(s) {
		return e.ts.False
	}
	return e.matchAt(s, p, 0)
}

func extHasSuffix(e *Exec, _ *frame, _ token.Pos, _ *ssa.Function, args []Value) Value {
	s, p := mustBytes(args[0]), mustBytes(args[1])
	if len(p) > len(s) {
		return e.ts.False
	}
	return e.matchAt(s, p, len(s)-len(p))
}

func extContains(e *Exec, fr *frame, pos token.Pos, fn *ssa.Function, args []Value) Value {
	i := extIndex(e, fr, pos, fn, args).(*Term)
	return e.ts.Bool(i.SVal() >= 0)
}

func extCompare(e *Exec, _ *frame, _ token.Pos, _ *ssa.Function, args []Value) Value {
	a, b := StrV{mustBytes(args[0])}, StrV{mustBytes(args[1])}
	lt := e.strLess(a, b, false)
	eq := e.strEq(a, b)
	return e.ts.Ite(lt, e.intV(-1), e.ts.Ite(eq, e.intV(0), e.intV(1)))
}

func extMakeNoZero(e *Exec, _ *frame, _ token.Pos, _ *ssa.Function, args []Value) Value {
	n := int(e.concretizeInt(args[0].(*Term), "MakeNoZero"))
	d := make([]Value, n)
	for i := range d {
		d[i] = e.ts.Const(8, 0)
	}
	return SliceV{data: d}
}

func extDecodeRune(e *Exec, _ *frame, _ token.Pos, _ *ssa.Function, args []Value) Value {
	b := mustBytes(args[0])
	if len(b) == 0 {
		return TupleV{e.ts.Const(32, 0xFFFD), e.intV(0)}
	}
	r, sz := e.decodeRune(b)
	return TupleV{r, e.intV(sz)}
}

// strings.Builder: struct{addr *Builder; buf []byte}
func builderBuf(e *Exec, args []Value) *Value {
	p, ok := args[0].(PtrV).single()
	if !ok {
		panic(unsupported("strings.Builder through multi-target pointer"))
	}
	sv := (*p).(StructV)
	return &sv[1]
}

func extBuilderWriteString(e *Exec, _ *frame, _ token.Pos, _ *ssa.Function, args []Value) Value {
	buf := builderBuf(e, args)
	s := args[1].(StrV)
	d := (*buf).(SliceV).data
	nd := make([]Value, 0, len(d)+len(s.b))
	nd = append(nd, d...)
	for _, t := range s.b {
		nd = append(nd, t)
	}
	*buf = SliceV{data: nd}
	return TupleV{e.intV(len(s.b)), IfaceV{}}
}

func extBuilderWrite(e *Exec, _ *frame, _ token.Pos, _ *ssa.Function, args []Value) Value {
	buf := builderBuf(e, args)
	s := mustBytes(args[1])
	d := (*buf).(SliceV).data
	nd := make([]Value, 0, len(d)+len(s))
	nd = append(nd, d...)
	for _, t := range s {
		nd = append(nd, t)
	}
	*buf = SliceV{data: nd}
	return TupleV{e.intV(len(s)), IfaceV{}}
}

func extBuilderWriteByte(e *Exec, _ *frame, _ token.Pos, _ *ssa.Function, args []Value) Value {
	buf := builderBuf(e, args)
	d := (*buf).(SliceV).data
	nd := make([]Value, 0, len(d)+1)
	nd = append(nd, d...)
	nd = append(nd, args[1])
	*buf = SliceV{data: nd}
	return IfaceV{}
}

func extBuilderWriteRune(e *Exec, _ *frame, _ token.Pos, fn *ssa.Function, args []Value) Value {
	s := e.runeToString(args[1].(*Term), fn.Signature.Params().At(0).Type()).(StrV)
	buf := builderBuf(e, args)
	d := (*buf).(SliceV).data
	nd := make([]Value, 0, len(d)+len(s.b))
	nd = append(nd, d...)
	for _, t := range s.b {
		nd = append(nd, t)
	}
	*buf = SliceV{data: nd}
	return TupleV{e.intV(len(s.b)), IfaceV{}}
}

func extBuilderString(e *Exec, _ *frame, _ token.Pos, _ *ssa.Function, args []Value) Value {
	buf := builderBuf(e, args)
	b, _ := bytesOf((*buf).(SliceV))
	return StrV{b}
}

func extBuilderLen(e *Exec, _ *frame, _ token.Pos, _ *ssa.Function, args []Value) Value {
	buf := builderBuf(e, args)
	return e.intV(len((*buf).(SliceV).data))
}

func extBuilderReset(e *Exec, _ *frame, _ token.Pos, _ *ssa.Function, args []Value) Value {
	buf := builderBuf(e, args)
	*buf = SliceV{}
	return nil
}

// ---- sort ----

func extSortSlice(e *Exec, fr *frame, pos token.Pos, _ *ssa.Function, args []Value) Value {
	s := args[0].(IfaceV).v.(SliceV)
	less := args[1]
	n := len(s.data)
	// insertion sort driven by the user's less(i, j) on indices
	for i := 1; i < n; i++ {
		for j := i; j > 0; j-- {
			r := e.call(fr, pos, less, []Value{e.intV(j), e.intV(j - 1)}).(*Term)
			if !e.decide(r) {
				break
			}
			s.data[j], s.data[j-1] = s.data[j-1], s.data[j]
		}
	}
	return nil
}

func extSortStrings(e *Exec, fr *frame, pos token.Pos, _ *ssa.Function, args []Value) Value {
	s := args[0].(SliceV)
	n := len(s.data)
	for i := 1; i < n; i++ {
		for j := i; j > 0; j-- {
			if !e.decide(e.strLess(s.data[j].(StrV), s.data[j-1].(StrV), false)) {
				break
			}
			s.data[j], s.data[j-1] = s.data[j-1], s.data[j]
		}
	}
	return nil
}

// ---- strconv (concrete only) ----

func extItoa(e *Exec, _ *frame, _ token.Pos, _ *ssa.Function, args []Value) Value {
	t := args[0].(*Term)
	if !t.IsConst() {
		v := e.concretizeInt(t, "Itoa")
		return e.strConst(strconv.FormatInt(v, 10))
	}
	return e.strConst(strconv.FormatInt(t.SVal(), 10))
}

func extFormatInt(e *Exec, _ *frame, _ token.Pos, _ *ssa.Function, args []Value) Value {
	v := e.concretizeInt(args[0].(*Term), "FormatInt")
	base := e.concretizeInt(args[1].(*Term), "FormatInt base")
	return e.strConst(strconv.FormatInt(v, int(base)))
}

func (e *Exec) mkError(msg string) Value {
	return e.call(nil, 0, e.fnByName("errors", "New"), []Value{e.strConst(msg)})
}

func extParseFloat(e *Exec, _ *frame, _ token.Pos, _ *ssa.Function, args []Value) Value {
	s, ok := args[0].(StrV).conc()
	if !ok {
		panic(unsupported("strconv.ParseFloat on symbolic string"))
	}
	bits := int(e.concretizeInt(args[1].(*Term), "bitSize"))
	f, err := strconv.ParseFloat(s, bits)
	if err != nil {
		return TupleV{FloatV{f}, e.mkError(err.Error())}
	}
	return TupleV{FloatV{f}, IfaceV{}}
}

func extFormatFloat(e *Exec, _ *frame, _ token.Pos, _ *ssa.Function, args []Value) Value {
	f := args[0].(FloatV).f
	fm := byte(e.concretizeInt(e.ts.ZExt(args[1].(*Term), 64), "fmt"))
	prec := int(e.concretizeInt(args[2].(*Term), "prec"))
	bits := int(e.concretizeInt(args[3].(*Term), "bits"))
	return e.strConst(strconv.FormatFloat(f, fm, prec, bits))
}

func extQuote(e *Exec, _ *frame, _ token.Pos, _ *ssa.Function, args []Value) Value {
	s, ok := args[0].(StrV).conc()
	if !ok {
		return e.strConst("\"<symbolic>\"")
	}
	return e.strConst(strconv.Quote(s))
}

// ---- Freeze (C14) ----

func extFreeze(e *Exec, _ *frame, _ token.Pos, _ *ssa.Function, args []Value) Value {
	if e.frozen == nil {
		e.frozen = map[*Value]bool{}
	}
	seen := map[*Value]bool{}
	var walkVal func(v Value)
	var walkCell func(p *Value)
	walkCell = func(p *Value) {
		if p == nil || seen[p] {
			return
		}
		seen[p] = true
		e.frozen[p] = true
		walkVal(*p)
	}
	walkVal = func(v Value) {
		switch x := v.(type) {
		case StructV:
			for i := range x {
				e.frozen[&x[i]] = true
				walkVal(x[i])
			}
		case ArrayV:
			for i := range x {
				e.frozen[&x[i]] = true
				walkVal(x[i])
			}
		case SliceV:
			for i := range x.data {
				e.frozen[&x.data[i]] = true
				walkVal(x.data[i])
			}
		case PtrV:
			for _, t := range x.tgs {
				walkCell(t.p)
			}
		case IfaceV:
			if x.t != nil {
				walkVal(x.v)
			}
		case *MapV:
			if x != nil {
				e.ghost[fmt.Sprintf("frozenmap:%d", x.id)] = e.ts.True
				for i := range x.vals {
					walkVal(x.vals[i])
				}
			}
		}
	}
	walkVal(args[0])
	return nil
}

func (e *Exec) noteFrozenWrite(fr *frame, instr ssa.Instruction) {
	pos := e.where()
	e.softViolation("write to an object reachable from the shared schema (data race between goroutines sharing the Schema)", pos)
}

// NondetPick[T](name, cands []T) T: a symbolic selection among the candidates, merged with
// ite (pointers become guarded target sets). Falls back to a concrete fork when the
// candidates cannot be merged.
func extNondetPick(e *Exec, _ *frame, _ token.Pos, _ *ssa.Function, args []Value) Value {
	name := e.freshName(e.concStr(args[0], "NondetPick"))
	cands := args[1].(SliceV).data
	n := len(cands)
	if n == 0 {
		panic(pathEnd{"NondetPick of nothing"})
	}
	if n == 1 {
		e.vec = append(e.vec, VecEntry{Name: name, Val: 0})
		return cands[0]
	}
	sel := e.ts.Var(name, 64)
	acc := cands[n-1]
	ok := true
	for i := n - 2; i >= 0 && ok; i-- {
		var m Value
		m, ok = e.mergeVal(e.ts.Eq(sel, e.ts.Const(64, uint64(i))), cands[i], acc)
		acc = m
	}
	if !ok {
		k := e.choose(n, name)
		e.vec = append(e.vec, VecEntry{Name: name, Val: int64(k)})
		return cands[k]
	}
	e.vec = append(e.vec, VecEntry{Name: name, T: sel})
	e.assertPC(e.ts.Cmp(OpULt, sel, e.ts.Const(64, uint64(n))))
	return acc
}

// findMethod looks up an exported method by name in the method set of t (nil if absent).
func (e *Exec) findMethod(t types.Type, name string) *ssa.Function {
	sel := e.prog.MethodSets.MethodSet(t).Lookup(nil, name)
	if sel == nil {
		return nil
	}
	return e.prog.MethodValue(sel)
}

// (*ios.LineNumReportingCsvReader).LineNum reads csv.Reader's unexported numLine through
// reflection; the engine reads the field directly.
func extCsvLineNum(e *Exec, fr *frame, pos token.Pos, fn *ssa.Function, args []Value) Value {
	p, ok := args[0].(PtrV).single()
	if !ok {
		panic(unsupported("LineNum through multi-target pointer"))
	}
	outer := (*p).(StructV)
	inner := outer[0].(PtrV) // embedded *csv.Reader
	q, ok := inner.single()
	if !ok {
		panic(unsupported("LineNum: nil csv.Reader"))
	}
	recvT := fn.Signature.Recv().Type().(*types.Pointer).Elem()
	csvT := recvT.Underlying().(*types.Struct).Field(0).Type().(*types.Pointer).Elem()
	idx := structFieldIndex(csvT, "numLine")
	return (*q).(StructV)[idx]
}

// (*strings.Replacer).Replace: naive semantics of the generic replacer — at each position
// the first old string (in argument order) that matches is replaced.
func extReplacerReplace(e *Exec, fr *frame, pos token.Pos, fn *ssa.Function, args []Value) Value {
	p, ok := args[0].(PtrV).single()
	if !ok {
		panic(unsupported("strings.Replacer through multi-target pointer"))
	}
	recvT := fn.Signature.Recv().Type().(*types.Pointer).Elem()
	oldnew := (*p).(StructV)[structFieldIndex(recvT, "oldnew")].(SliceV).data
	s := args[1].(StrV).b
	var out []*Term
	i := 0
	for i < len(s) {
		matched := false
		for k := 0; k+1 < len(oldnew); k += 2 {
			o := oldnew[k].(StrV).b
			if len(o) == 0 || i+len(o) > len(s) {
				continue
			}
			if e.decide(e.matchAt(s, o, i)) {
				out = append(out, oldnew[k+1].(StrV).b...)
				i += len(o)
				matched = true
				break
			}
		}
		if !matched {
			out = append(out, s[i])
			i++
		}
	}
	return StrV{out}
}

// encoding/json.Marshal (reflection-driven) is replaced by a deterministic, injective
// rendering of the value kinds the transform produces (maps with concrete keys in sorted
// order, slices, strings with possibly symbolic bytes, integers, concrete floats, bools,
// nil). Non-finite floats are an error, as in the real encoder.


// extSetGlobalInt: zz.SetGlobalInt("pkg/path.name", v) sets an integer package variable of the
// analysed program (natively a no-op: harnesses reach the same state by other means).
func extSetGlobalInt(e *Exec, _ *frame, _ token.Pos, _ *ssa.Function, a []Value) Value {
	name := e.concStr(a[0], "SetGlobalInt name")
	i := strings.LastIndex(name, ".")
	if i < 0 {
		panic(unsupported("SetGlobalInt: want pkg/path.name"))
	}
	for _, p := range e.prog.AllPackages() {
		if p.Pkg.Path() == name[:i] {
			if g, ok := p.Members[name[i+1:]].(*ssa.Global); ok {
				e.ensureInit(p, false)
				cell := e.globalCell(g)
				w, _, _ := intWidth(g.Type().(*types.Pointer).Elem())
				v := a[1].(*Term)
				if v.width != w {
					v = e.ts.SExt(v, w)
				}
				*cell = v
				return nil
			}
		}
	}
	panic(unsupported("SetGlobalInt: no such global " + name))
}
