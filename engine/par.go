package main

// Bounded thread model (zzverif.Par).
//
// zz.Par(f1, …, fn) runs the closures as n threads of the analysed program under a sequentially
// consistent scheduler whose choices are decisions of the exploration like any branch: every
// interleaving of the threads' *synchronisation operations* (sync/atomic, Mutex/RWMutex
// Lock/RLock, sync.Pool Get/Put, sync.Once.Do) with at most PREEMPT preemptive context switches
// (switches away from a thread that could have continued; default 2) is explored; switches at
// thread end or at a blocked Lock are free. Data are symbolic as everywhere else.
//
// Between two synchronisation operations a thread runs without interruption. That is sound for
// data-race-free executions (DRF-SC), and the other executions are not ignored: a vector-clock
// happens-before monitor over every load/store/map operation/append/copy the interpreter
// executes during Par reports each pair of conflicting accesses not ordered by
// synchronisation as a violation ("data race"). Happens-before edges: program order;
// Unlock→Lock, Unlock→RLock, RUnlock→Lock on one mutex; all atomic operations on one address
// (Go's atomics are sequentially consistent and synchronise); Pool.Put(x)→the Get returning x;
// completion of Once.Do(f)→return of every Do on that Once.
//
// Every thread is a host goroutine; exactly one runs at any time (hand-over through channels),
// so the interpreter state stays single-threaded.

import (
	"fmt"
	"go/token"

	"golang.org/x/tools/go/ssa"
)

type vclock []int

func (a vclock) join(b vclock) {
	for i := range b {
		if b[i] > a[i] {
			a[i] = b[i]
		}
	}
}

func (a vclock) clone() vclock { return append(vclock(nil), a...) }

type parThread struct {
	id        int
	fn        Value
	resume    chan bool
	done      bool
	enabled   func() bool
	what      string
	clk       vclock
	depth     int
	curFrame  *frame
	curInstr  ssa.Instruction
	panicking *targetPanic
}

type parLock struct {
	holder  int // thread id + 1, 0 = free
	readers int
	wclk    vclock
	rclk    vclock
}

type parEpoch struct {
	tid int
	c   int
	fr  *frame
	in  ssa.Instruction
}

type parAcc struct {
	w     parEpoch
	hasW  bool
	reads []parEpoch // at most one per thread
}

type parEvent struct {
	kind int // 0 yield, 1 done, 2 panic, 3 aborted
	val  interface{}
}

type parAbort struct{}

type parState struct {
	th         []*parThread
	cur        *parThread
	events     chan parEvent
	preempts   int
	maxPreempt int
	switches   int
	locks      map[*Value]*parLock
	syncClk    map[interface{}]vclock
	acc        map[*Value]*parAcc
	macc       map[*MapV]*parAcc
	onceRun    map[*Value]int
	races      map[string]bool
}

func (th *parThread) save(e *Exec) {
	th.depth, th.curFrame, th.curInstr, th.panicking = e.depth, e.curFrame, e.curInstr, e.panicking
}

func (th *parThread) restore(e *Exec) {
	e.depth, e.curFrame, e.curInstr, e.panicking = th.depth, th.curFrame, th.curInstr, th.panicking
}

// parActive: a scheduling point / monitored access counts only inside a thread body and outside
// package initialisers and ghost code.
func (e *Exec) parActive() bool {
	return e.par != nil && e.par.cur != nil && e.inInit == 0 && e.pureDepth == 0
}

// parYield is a scheduling point before a synchronisation operation of the running thread.
func (e *Exec) parYield(what string, enabled func() bool) {
	if !e.parActive() {
		return
	}
	ps := e.par
	th := ps.cur
	th.enabled, th.what = enabled, what
	th.save(e)
	ps.events <- parEvent{kind: 0}
	if ok := <-th.resume; !ok {
		panic(parAbort{})
	}
	th.enabled = nil
	th.restore(e)
}

func (ps *parState) acquire(th *parThread, c vclock) {
	if c != nil {
		th.clk.join(c)
	}
}

func (ps *parState) releaseTo(th *parThread, key interface{}) {
	c := ps.syncClk[key]
	if c == nil {
		c = make(vclock, len(ps.th))
		ps.syncClk[key] = c
	}
	c.join(th.clk)
	th.clk[th.id]++
}

func (ps *parState) lock(c *Value) *parLock {
	l := ps.locks[c]
	if l == nil {
		l = &parLock{wclk: make(vclock, len(ps.th)), rclk: make(vclock, len(ps.th))}
		ps.locks[c] = l
	}
	return l
}

func (e *Exec) parWhere(fr *frame, in ssa.Instruction) string {
	if fr == nil {
		return "?"
	}
	p := fr.pos
	if in != nil && in.Pos().IsValid() {
		p = in.Pos()
	}
	return fr.fn.String() + "@" + e.posStr(p)
}

func (e *Exec) parRace(kind string, prev parEpoch) {
	ps := e.par
	msg := fmt.Sprintf("data race: %s at %s (thread %d) not ordered with an access at %s (thread %d)",
		kind, e.parWhere(e.curFrame, e.curInstr), ps.cur.id, e.parWhere(prev.fr, prev.in), prev.tid)
	if ps.races[msg] {
		return
	}
	ps.races[msg] = true
	e.softViolation(msg, e.where())
}

func (e *Exec) parCheck(a *parAcc, write bool) {
	ps := e.par
	th := ps.cur
	me := parEpoch{tid: th.id, c: th.clk[th.id], fr: e.curFrame, in: e.curInstr}
	if a.hasW && a.w.tid != th.id && a.w.c > th.clk[a.w.tid] {
		if write {
			e.parRace("write", a.w)
		} else {
			e.parRace("read", a.w)
		}
	}
	if write {
		for _, r := range a.reads {
			if r.tid != th.id && r.c > th.clk[r.tid] {
				e.parRace("write", r)
			}
		}
		a.w, a.hasW = me, true
		a.reads = a.reads[:0]
		return
	}
	for i := range a.reads {
		if a.reads[i].tid == th.id {
			a.reads[i] = me
			return
		}
	}
	a.reads = append(a.reads, me)
}

func (e *Exec) parAccessCell(c *Value, write bool) {
	ps := e.par
	a := ps.acc[c]
	if a == nil {
		a = &parAcc{}
		ps.acc[c] = a
	}
	e.parCheck(a, write)
}

// parAccessPtr records an access through p (every target whose guard is not constant false).
func (e *Exec) parAccessPtr(p PtrV, write bool) {
	if !e.parActive() {
		return
	}
	for _, t := range p.tgs {
		if t.g != nil && t.g.IsFalse() {
			continue
		}
		if t.p != nil {
			e.parAccessCell(t.p, write)
		} else if t.arr != nil {
			if t.idx != nil && t.idx.IsConst() && int(t.idx.val) < len(t.arr) {
				e.parAccessCell(&t.arr[t.idx.val], write)
				continue
			}
			for i := range t.arr {
				e.parAccessCell(&t.arr[i], write)
			}
		}
	}
}

func (e *Exec) parAccessCells(d []Value, write bool) {
	if !e.parActive() {
		return
	}
	for i := range d {
		e.parAccessCell(&d[i], write)
	}
}

func (e *Exec) parAccessMap(m *MapV, write bool) {
	if !e.parActive() || m == nil {
		return
	}
	ps := e.par
	a := ps.macc[m]
	if a == nil {
		a = &parAcc{}
		ps.macc[m] = a
	}
	e.parCheck(a, write)
}

// parAccessObj: engine-side objects (goja VM model, builders) keyed by their cell.
func (e *Exec) parAccessObj(v Value, write bool) {
	if !e.parActive() {
		return
	}
	if p, ok := v.(PtrV); ok {
		if c, ok := p.single(); ok {
			e.parAccessCell(c, write)
		}
	}
}

// ---- synchronisation operations ----

func ptrCell(v Value) *Value {
	p, ok := v.(PtrV)
	if !ok {
		return nil
	}
	c, ok := p.single()
	if !ok {
		panic(unsupported("synchronisation object through nil/multi-target pointer"))
	}
	return c
}

func extMutexLock(e *Exec, fr *frame, pos token.Pos, fn *ssa.Function, args []Value) Value {
	if !e.parActive() {
		return nil
	}
	ps := e.par
	l := ps.lock(ptrCell(args[0]))
	e.parYield("Lock", func() bool { return l.holder == 0 && l.readers == 0 })
	th := ps.cur
	l.holder = th.id + 1
	ps.acquire(th, l.wclk)
	ps.acquire(th, l.rclk)
	return nil
}

func extMutexUnlock(e *Exec, fr *frame, pos token.Pos, fn *ssa.Function, args []Value) Value {
	if !e.parActive() {
		return nil
	}
	ps := e.par
	l := ps.lock(ptrCell(args[0]))
	th := ps.cur
	if l.holder != th.id+1 {
		if l.holder == 0 {
			panic(targetPanic{msg: "sync: unlock of unlocked mutex", pos: e.posStr(pos)})
		}
	}
	l.holder = 0
	l.wclk.join(th.clk)
	th.clk[th.id]++
	return nil
}

func extRLock(e *Exec, fr *frame, pos token.Pos, fn *ssa.Function, args []Value) Value {
	if !e.parActive() {
		return nil
	}
	ps := e.par
	l := ps.lock(ptrCell(args[0]))
	e.parYield("RLock", func() bool { return l.holder == 0 })
	l.readers++
	ps.acquire(ps.cur, l.wclk)
	return nil
}

func extRUnlock(e *Exec, fr *frame, pos token.Pos, fn *ssa.Function, args []Value) Value {
	if !e.parActive() {
		return nil
	}
	ps := e.par
	l := ps.lock(ptrCell(args[0]))
	th := ps.cur
	if l.readers == 0 {
		panic(targetPanic{msg: "sync: RUnlock of unlocked RWMutex", pos: e.posStr(pos)})
	}
	l.readers--
	l.rclk.join(th.clk)
	th.clk[th.id]++
	return nil
}

// parAtomic brackets an atomic operation on the address p: scheduling point, acquire, op, release.
func (e *Exec) parAtomic(p Value, op func() Value) Value {
	if !e.parActive() {
		return op()
	}
	c := ptrCell(p)
	e.parYield("atomic", nil)
	ps := e.par
	th := ps.cur
	ps.acquire(th, ps.syncClk[c])
	r := op()
	ps.releaseTo(th, c)
	return r
}

func poolObjKey(x Value) *Value {
	iv, ok := x.(IfaceV)
	if !ok {
		return nil
	}
	p, ok := iv.v.(PtrV)
	if !ok {
		return nil
	}
	c, ok := p.single()
	if !ok {
		return nil
	}
	return c
}

type poolKey struct{ c *Value }

func (e *Exec) parPoolPut(x Value) {
	if !e.parActive() {
		return
	}
	if c := poolObjKey(x); c != nil {
		e.par.releaseTo(e.par.cur, poolKey{c})
	}
}

func (e *Exec) parPoolGot(x Value) {
	if !e.parActive() {
		return
	}
	if c := poolObjKey(x); c != nil {
		e.par.acquire(e.par.cur, e.par.syncClk[poolKey{c}])
	}
}

type onceKey struct{ c *Value }

// ---- zz.Par ----

func extPar(e *Exec, fr *frame, pos token.Pos, fn *ssa.Function, args []Value) Value {
	if e.par != nil {
		panic(unsupported("nested zz.Par"))
	}
	fns := args[0].(SliceV).data
	n := len(fns)
	if n == 0 {
		return nil
	}
	ps := &parState{events: make(chan parEvent), maxPreempt: 2,
		locks: map[*Value]*parLock{}, syncClk: map[interface{}]vclock{}, acc: map[*Value]*parAcc{},
		macc: map[*MapV]*parAcc{}, onceRun: map[*Value]int{}, races: map[string]bool{}}
	if v, ok := e.cfg.Params["PREEMPT"]; ok {
		ps.maxPreempt = int(v)
	}
	e.note(fmt.Sprintf("thread model: %d threads, sequentially consistent interleavings of synchronisation operations with at most %d preemptions, happens-before race monitor", n, ps.maxPreempt))
	mainDepth, mainFrame, mainInstr, mainPanicking := e.depth, e.curFrame, e.curInstr, e.panicking
	for i := 0; i < n; i++ {
		th := &parThread{id: i, fn: fns[i], resume: make(chan bool), clk: make(vclock, n), depth: e.depth, curFrame: fr, curInstr: e.curInstr}
		th.clk[i] = 1
		ps.th = append(ps.th, th)
	}
	e.par = ps
	for _, th := range ps.th {
		th := th
		go func() {
			defer func() {
				r := recover()
				switch r.(type) {
				case nil:
					ps.events <- parEvent{kind: 1}
				case parAbort:
					ps.events <- parEvent{kind: 3}
				default:
					ps.events <- parEvent{kind: 2, val: r}
				}
			}()
			if ok := <-th.resume; !ok {
				panic(parAbort{})
			}
			th.restore(e)
			e.call(fr, pos, th.fn, nil)
		}()
	}
	abortOthers := func() {
		for _, th := range ps.th {
			if !th.done {
				th.done = true
				th.resume <- false
				<-ps.events
			}
		}
	}
	finish := func() {
		e.par = nil
		e.depth, e.curFrame, e.curInstr, e.panicking = mainDepth, mainFrame, mainInstr, mainPanicking
	}
	var cur *parThread
	for {
		var en []*parThread
		alldone := true
		for _, th := range ps.th {
			if th.done {
				continue
			}
			alldone = false
			if th.enabled == nil || th.enabled() {
				en = append(en, th)
			}
		}
		if alldone {
			break
		}
		if len(en) == 0 {
			ps.cur = nil
			abortOthers()
			finish()
			panic(targetPanic{msg: "all goroutines are blocked (deadlock)", pos: e.posStr(pos)})
		}
		var next *parThread
		curEnabled := false
		if cur != nil && !cur.done {
			for _, th := range en {
				if th == cur {
					curEnabled = true
				}
			}
		}
		ps.cur = nil // the scheduler's own decisions are not thread actions
		if curEnabled {
			if ps.preempts >= ps.maxPreempt || len(en) == 1 {
				next = cur
			} else {
				opts := []*parThread{cur}
				for _, th := range en {
					if th != cur {
						opts = append(opts, th)
					}
				}
				k := e.choose(len(opts), "schedule")
				next = opts[k]
				if k > 0 {
					ps.preempts++
				}
			}
		} else {
			next = en[e.choose(len(en), "schedule")]
		}
		if next != cur {
			ps.switches++
		}
		cur = next
		ps.cur = next
		next.resume <- true
		ev := <-ps.events
		switch ev.kind {
		case 1:
			next.done = true
		case 2:
			next.done = true
			ps.cur = nil
			abortOthers()
			finish()
			panic(ev.val)
		}
	}
	finish()
	return nil
}
