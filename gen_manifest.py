#!/usr/bin/env python3
# Regenerates MANIFEST.json from checks.json (claimed properties) and the tables below.
import json
props=[json.loads(l) for l in open('/verif/properties.jsonl')]
checks=json.load(open('/verif/checks.json'))
base=json.load(open('/root/.vp/BASELINE.json'))
TECH="SMT-based bounded symbolic execution of go/ssa built from /repo (z3 decides every branch feasibility and every assertion); counterexamples replayed natively"
LEVEL={
 "C01":("bounded symbolic execution of the real transform.Read/RawRecord from an arbitrary pre-state satisfying the latch invariant (one inductive step covers call histories of any length); per-format error classification is decided in the C16/C07 reader harnesses",
        "ingester is a symbolic mock returning any of five result classes (handler contract err==nil ⇒ non-nil bytes assumed); json.Marshal's output validity trusted"),
 "C03":("panic-freedom and termination as explicit obligations: the old csv reader over every admitted delimiter/row-index configuration with every loop bounded (a loop over its bound is a violation, replayed natively under a watchdog); in addition every harness of every other property carries implicit nil/bounds/division/explicit-panic checks and unwinding assertions on all paths",
        "own harnesses added since: arbitrary bytes through the XML and csv2 readers, fixedlength2 column slicing on invalid UTF-8, every cast and absent value on five custom-function signatures (incl. fixed+variadic), template reference cycles through every reference kind (unbounded recursion = violation). NewSchema on arbitrary bytes (gojsonschema, encoding/json.Unmarshal, regexp/xpath compilation of arbitrary text), goja and custom function bodies are outside"),
 "C05":("the real HierarchyReader and the real EDI reader (bufio.Scanner, go-corelib split function, tokenizer, matcher) and the real csv2 reader are executed symbolically over every bounded hierarchy shape / min-max / unit sequence and compared with an independent recursive greedy matcher",
        "RecReader mock honours its documented contract in C05Hier; bounds as listed in evidence; min<=max as validation enforces; max=0 excluded"),
 "C06":("real fixed-length / csv2 / old csv / old fixed-length readers incl. real bufio and encoding/csv executed symbolically over symbolic field and line content with forked structure and source cut points; column values compared with ghost copies",
        "structure (row/field counts, EOL kinds, cut positions) is forked concretely, content is symbolic; quoted fields with embedded delimiters/quotes/line breaks and rows spanning two physical lines are included; RFC-4180 quoting itself is encoding/csv's; regexp executed as real code on concrete patterns"),
 "C07":("NonValidatingReader + ediReader executed on every input up to the byte bound and compared with an independent one-pass tokenizer with an escape flag; encode→tokenize→unescape round trip over symbolic values",
        "single-byte delimiters; valid UTF-8; inputs ≤ 4..6 bytes plus one wide configuration (a 40/100-element segment); bounds in evidence"),
 "C09":("two-run non-interference: the same symbolic bytes delivered one-shot and under every chunk schedule in the bound give the same results (EDI scanner with a 2-byte buffer and CR/LF stripping readers, also across >100-byte CR/LF runs byte by byte; fixedlength2 and old fixed-length readers over a 16-byte bufio buffer with cut sources; XML stream reader with the real decoder on documents and arbitrary bytes; BOM/charset stack under cuts and across its 4096-byte buffers)",
        "encoding/json tokenisation is modelled (no chunking claim for JSON); csv readers' chunking is encoding/csv over bufio and not separately compared"),
 "C12":("inductive steps over a symbolic heap: all five links of N nodes are solver-chosen, constrained only by the wfForest invariant; one AddChild / RemoveAndReleaseTree / CreateNode with symbolic arguments must re-establish the invariant, keep child order, blank and pool exactly the removed subtree and issue fresh IDs; reader Release/Read protocols are monitored for double release and use-after-release; acquisitions racing on goroutines: bounded thread model (every interleaving of pool and atomic operations of 2 threads within a preemption bound, happens-before race monitor) with IDs, ownership and blankness asserted after the join",
        "sync.Pool modelled as a bag (LIFO, or any element in mode 2); threads: 2, preemptions ≤ 2 (quick) / 3 (thorough), sequential consistency; more threads or preemptions are outside"),
 "C16":("every built-in reader claimed is run over symbolic inputs with the source failing persistently at every byte position and compared with its fault-free twin: prefix of results equal (last exempt), then a non-continuable non-EOF error within the read bound",
        "fault model: once failing, always failing with the same error; a reader that legitimately stops before the fault matters may end as the fault-free run does"),
}
LEVEL.update({
 "C04":("the real XML stream reader (real encoding/xml) and the JSON stream reader (token model) with the real antchfx/xpath engine are executed symbolically over forked document shapes with symbolic values and compared, per target xpath, with whole-document selection on an independently built tree (outermost candidates, own predicate, document order, complete subtrees); the path/filter splitter is checked against a forward scanner on all well-formed strings",
        "JSON tokenisation replaced by a grammar-valid token model (natively the real decoder runs on the rendered text); xpath class = the listed expressions"),
 "C08":("JSON: tree built by the stream reader converted back with J2NodeToInterface and deep-compared with the abstract value for all values in the bound; XML: delivered tree compared node by node (type, prefix, URI, name, order, attributes first, text) with an independently built tree for namespace/attribute/mixed-content shapes",
        "numbers: ten concrete literals incl. 2^53+1, 2^63, 1e25, 1.5e300, fractions (floating point is concrete in the engine; strconv trusted); XML entities/CDATA/PIs are the tokeniser's"),
 "C17":("periodic inputs: the size of the tree reachable from the reader's root after each delivered-and-released record must not exceed the size after the first; XML with the real decoder, passing and filtered-out records (child-value, attribute and multi-filter targets), with and without separators; the shared flat-file HierarchyReader with leaf/parent/group targets and filters; EDI; the growth with character data between XML records is the recorded finding F6",
        "retention measured on the node tree only"),
})
LEVEL.update({
 "C02":("the real schema validation (validateDecl: kinds, templates, children, parents) and ParseNode with the real xpath engine are executed symbolically over a schema family with symbolic flags and records with symbolic texts, and compared with an independent reference evaluator written from the documents (arrays in declaration order, template inlining, anchoring rules, trim/cast/omit)",
        "17-schema family (templates, ignore_error inline/through templates/next to a strict twin, field names with '.' and '%', empty containers, 12-element arrays); real computeDeclHash; kept empty values: null ≡ empty container; undocumented combinations excluded (listed in evidence)"),
 "C11":("differential: the same real xpath engine over idr's navigator and over the reference DOM binding (xmlquery), both executed symbolically on the same bytes, 45 expressions over all axes / positional predicates / functions / predicates on attribute steps, started at the document, the root element or an inner element, plus a namespace document family (prefixed elements, prefixed and unprefixed attributes); results compared by position, name, kind and string value",
        "text()/node() tests on character data excluded (reference v1.3.1 deviates itself); expressions limited to the listed ones"),
 "C13":("two-run non-interference: ParseNode with the per-record result cache on vs. off on the same symbolic record, over a 17-schema family built to share declaration text across positions, with the REAL computeDeclHash (json.Marshal with struct tags/MarshalJSON executed through the engine's model, uuid as a per-path counter); the ingester's per-record context is covered by an ancestor-anchored declaration in C10IngesterStep; node pool on/off equivalence is part of the C12 create step; xpath-expression cache: real LRU code executed as part of every harness",
        "goja caches are C20's; the LRU's eviction is not reached (capacity 65536)"),
})
LEVEL.update({
 "C10":("the real ingester is executed over K symbolic records; each result is compared with an independent evaluation of a copy of that record alone with a fresh context (so no result depends on another record), a failing record is exactly one continuable ErrTransformFailed, every record node is released exactly once before the next read, and the tree under the reader's root does not grow",
        "FormatReader mock; reader-side cross-record state is covered where it lives (C06 line/record buffers, C12 pool, C13 caches)"),
})
LEVEL.update({
 "C19":("epoch arithmetic: DateTimeToEpoch and EpochToDateTimeRFC3339, both units, both signs, on the real code and the real time package's integer code for every instant of years 1..9999 under 64-bit wrap-around semantics; zone logic: the real parseDateTime, go-corelib OverwriteTZ/ConvertTZ and the real time package (time.Date, absDate, Time.In, Location.lookup) over the real IANA transition tables of four zones, every from/to combination, every second within ±25 h of every transition in a window of years, against a seconds-level statement of instant and wall-clock preservation (DST gaps per time.Date's contract); empty-input and parse-error rules of the four exported functions; counterexamples are replayed natively through the real parser and formatter",
        "text parsing and layouts (times.SmartParse, time.Parse/Format) are cut away in the engine (natively they run); zones: 4, years: 2021 (quick) / 2018-2023 (thorough)"),
})
LEVEL.update({
 "C20":("pool hygiene and _node freshness on the real javascript.go code: two consecutive calls over every subset of argument names (incl. a built-in's name), first script returning or throwing, the second call getting the pooled VM: the globals visible to the second script are exactly the built-ins plus its own arguments; _node of a node built from recycled memory; NaN/±Infinity/null/undefined results rejected; program cache keyed by the exact script text; the stale _node of a changing ancestor is the recorded finding F5",
        "goja is modelled by its global-variable table, result kinds and string literals of marker scripts (the JS engine itself is outside); natively the real goja runs the equivalent script"),
})
LEVEL.update({
 "C18":("the real reader stack NewTransform builds (charset decoder selection, x/text charmap decoder and transform.Reader, BOM strip through bufio.ReadRune) executed symbolically on arbitrary bytes: the bytes handed to the format reader equal stripLeadingBOM(decode(input)) for an independent code-page table, for every declared encoding",
        "inputs ≤ bound bytes plus inputs placed across the 4096/8192-byte internal buffer boundaries; undefined windows-1252 bytes excluded; that equal bytes give equal results downstream is each format reader's determinism (C15)"),
})
LEVEL.update({
 "C14":("bounded thread model on the real code: two goroutines (transform over a shared validated declaration tree with cold xpath cache; queries through one cached compiled xpath; javascript custom functions over the shared VM pool and program cache; whole ingester runs over one schema through the shared node pool; racing node acquisitions) under every sequentially consistent interleaving of their synchronisation operations (sync/atomic, Mutex/RWMutex incl. the real golang-lru code, sync.Pool, sync.Once) within a preemption bound, with a vector-clock happens-before race monitor over every load/store/map operation and each thread's results compared with its serial run; plus the freeze condition on six reader/transform harnesses (EDI, csv2, fixedlength2, old fixed-length, transform declarations) (no store into validated declarations while reading or transforming)",
        "2 threads; preemptions ≤ 1..2 (quick) / 2..4 (thorough); sequential consistency (weak-memory effects are exactly the data races the monitor reports); accesses inside engine-side models of byte/string leaf functions are not monitored; goja internals modelled; GOMAXPROCS and the real scheduler appear only in the native -race replay"),
})
LEVEL.update({
 "C15":("two-run non-interference over hidden state decided inside single symbolic paths: the same transform before and after unrelated activity (pool contents, ID counter advance, all map-iteration permutations) yields byte-identical outputs and checksums; failure texts identical across independent schema loads under every map order; customfuncs.Merge never writes into the registries it is given; checksum injectivity on XML record shapes, with the attribute/mixed-content collision (F13) and the list-of-same-named-children collision (F24) recorded as findings",
        "MD5/UUID trusted; separate processes subsumed by arbitrary process state"),
})
REASON_NOT_YET="check under construction in this session (see DESIGN.md §6); not claimed yet"
m={
 "version":1,
 "setup_cmd":"cd /verif/engine && GOFLAGS=-mod=mod GOPROXY=off GOSUMDB=off GOTOOLCHAIN=local go build -o ../bin/gosmt . && ../bin/gosmt selftest",
 "hooks":{"guard":"verif","enable":"none needed: harnesses are injected with go/packages Overlay and go test -overlay; no file is added to /repo","baseline_off_cmd":base["cmd"],
          "source_commits":[],"add_only":True},
 "engines":[{"name":"gosmt","path":"/verif/engine","serves_properties":sorted(checks.keys()),
   "kind_free_text":"bounded symbolic execution of go/ssa built from /repo's current source on every run; path-wise (re-execution DFS), if-converted ghost code, guarded pointer sets for symbolic heaps; z3 5.1 decides every branch feasibility and assertion; counterexamples and cover witnesses replayed natively via go test -overlay"}],
 "checks":[], "not_applicable":[],
 "notes":"fix: commits in /repo are repairs of genuine defects found by these checks (see known_findings.json and DESIGN.md §8); no hook commits exist."
}
for p in props:
    pid=p['id']
    if pid in checks and pid in LEVEL:
        m["checks"].append({
          "property_id":pid,
          "quick_cmd":"/verif/check.sh %s quick"%pid,
          "thorough_cmd":"/verif/check.sh %s thorough"%pid,
          "evidence_file":"/verif/evidence/%s.json"%pid,
          "replay_cmd_template":"{path}/run.sh",
          "engine":"gosmt",
          "level_claimed":{"category":"model_checking","text":LEVEL[pid][0],"design_ref":"DESIGN.md §6 "+pid},
          "level_note":LEVEL[pid][1],
          "technique":TECH})
    else:
        m["not_applicable"].append({"property_id":pid,"reason":REASON_NOT_YET})
json.dump(m,open('/verif/MANIFEST.json','w'),indent=1)
print("claimed:",[c["property_id"] for c in m["checks"]])
