package main

// encoding/json.Marshal, type-directed over the analysed program's static types: struct tags
// (name, omitempty, "-"), embedded structs, pointers, maps with sorted string keys, slices,
// interfaces, and user MarshalJSON methods (run as real code). Strings are rendered between
// quotes without escaping (an injective rendering: the text is compared, hashed or handed on,
// never re-parsed by the engine); non-finite floats are an error as in the real encoder.

import (
	"fmt"
	"go/token"
	"go/types"
	"reflect"
	"sort"
	"strconv"
	"strings"

	"golang.org/x/tools/go/ssa"
)

type jsonEnc struct {
	e    *Exec
	fr   *frame
	pos  token.Pos
	out  []*Term
	fail string
}

func (j *jsonEnc) lit(s string) { j.out = append(j.out, j.e.strConst(s).b...) }

func (j *jsonEnc) marshalerOf(t types.Type) *ssa.Function {
	ms := j.e.prog.MethodSets.MethodSet(t)
	for i := 0; i < ms.Len(); i++ {
		sel := ms.At(i)
		if sel.Obj().Name() == "MarshalJSON" {
			sig := sel.Type().(*types.Signature)
			if sig.Params().Len() == 0 && sig.Results().Len() == 2 {
				return j.e.prog.MethodValue(sel)
			}
		}
	}
	return nil
}

func (j *jsonEnc) isEmpty(v Value, t types.Type) bool {
	switch x := v.(type) {
	case *Term:
		if x.IsConst() {
			return x.val == 0
		}
		return !j.e.decide(j.e.ts.Ne(x, j.e.ts.Const(x.width, 0)))
	case FloatV:
		return x.f == 0
	case StrV:
		return len(x.b) == 0
	case PtrV:
		return x.isNil()
	case IfaceV:
		return x.t == nil
	case SliceV:
		return len(x.data) == 0
	case *MapV:
		if x == nil {
			return true
		}
		for _, k := range x.keys {
			if k != nil {
				return false
			}
		}
		return true
	case ArrayV:
		return len(x) == 0
	}
	return false
}

func (j *jsonEnc) render(v Value, t types.Type) {
	if j.fail != "" {
		return
	}
	// user marshalers (value or pointer receiver reachable from this value)
	if _, isIface := t.Underlying().(*types.Interface); !isIface {
		if f := j.marshalerOf(t); f != nil {
			if p, isPtr := v.(PtrV); isPtr && p.isNil() {
				j.lit("null")
				return
			}
			recv := v
			// a value-receiver method reached through a pointer: dereference
			if _, recvIsPtr := f.Signature.Recv().Type().Underlying().(*types.Pointer); !recvIsPtr {
				if p, isPtr := v.(PtrV); isPtr {
					recv = j.e.load(j.fr, nil, p)
				}
			}
			r := j.e.call(j.fr, j.pos, f, []Value{recv}).(TupleV)
			if ev := r[1].(IfaceV); ev.t != nil {
				j.fail = "json: error calling MarshalJSON for type " + t.String()
				return
			}
			b, _ := bytesOf(r[0])
			j.out = append(j.out, b...)
			return
		}
	}
	switch u := t.Underlying().(type) {
	case *types.Interface:
		iv := v.(IfaceV)
		if iv.t == nil {
			j.lit("null")
			return
		}
		j.render(iv.v, iv.t)
	case *types.Pointer:
		p := v.(PtrV)
		if p.isNil() {
			j.lit("null")
			return
		}
		j.render(j.e.load(j.fr, nil, p), u.Elem())
	case *types.Basic:
		switch x := v.(type) {
		case StrV:
			j.lit("\"")
			j.out = append(j.out, x.b...)
			j.lit("\"")
		case FloatV:
			if x.f != x.f || x.f > 1.7976931348623157e308 || x.f < -1.7976931348623157e308 {
				j.fail = "json: unsupported value: " + strconv.FormatFloat(x.f, 'g', -1, 64)
				return
			}
			j.lit(strconv.FormatFloat(x.f, 'g', -1, 64))
		case *Term:
			w, signed, _ := intWidth(t)
			if w == 0 {
				if x.IsConst() {
					j.lit(map[bool]string{true: "true", false: "false"}[x.val == 1])
				} else if j.e.decide(x) {
					j.lit("true")
				} else {
					j.lit("false")
				}
				return
			}
			var n int64
			if x.IsConst() {
				n = x.SVal()
				if !signed {
					n = int64(x.val)
				}
			} else {
				n = j.e.concretizeInt(j.e.toInt64Term(x, t), "json number")
			}
			j.lit(strconv.FormatInt(n, 10))
		default:
			panic(unsupported(fmt.Sprintf("json.Marshal of %T as %s", v, t)))
		}
	case *types.Map:
		m := v.(*MapV)
		if m == nil {
			j.lit("null")
			return
		}
		type kv struct {
			k string
			v Value
		}
		var kvs []kv
		for i, k := range m.keys {
			if k == nil {
				continue
			}
			ks, ok := k.(StrV).conc()
			if !ok {
				panic(unsupported("json.Marshal: symbolic map key"))
			}
			kvs = append(kvs, kv{ks, m.vals[i]})
		}
		sort.Slice(kvs, func(a, b int) bool { return kvs[a].k < kvs[b].k })
		j.lit("{")
		for i, p := range kvs {
			if i > 0 {
				j.lit(",")
			}
			j.lit(strconv.Quote(p.k) + ":")
			j.render(p.v, u.Elem())
		}
		j.lit("}")
	case *types.Slice:
		sl := v.(SliceV)
		if sl.data == nil {
			j.lit("null")
			return
		}
		if w, _, ok := intWidth(u.Elem()); ok && w == 8 {
			panic(unsupported("json.Marshal of []byte (base64)"))
		}
		j.lit("[")
		for i, el := range sl.data {
			if i > 0 {
				j.lit(",")
			}
			j.render(el, u.Elem())
		}
		j.lit("]")
	case *types.Array:
		a := v.(ArrayV)
		j.lit("[")
		for i, el := range a {
			if i > 0 {
				j.lit(",")
			}
			j.render(el, u.Elem())
		}
		j.lit("]")
	case *types.Struct:
		j.lit("{")
		first := true
		j.fields(v.(StructV), u, &first)
		j.lit("}")
	default:
		panic(unsupported("json.Marshal of " + t.String()))
	}
}

// fields renders the exported fields of a struct in index order; untagged embedded structs
// are inlined at their position (encoding/json's promotion rule for the common case).
func (j *jsonEnc) fields(sv StructV, st *types.Struct, first *bool) {
	for i := 0; i < st.NumFields(); i++ {
		f := st.Field(i)
		tag := reflect.StructTag(st.Tag(i)).Get("json")
		name, opts := tag, ""
		if k := strings.Index(tag, ","); k >= 0 {
			name, opts = tag[:k], tag[k+1:]
		}
		if tag == "-" {
			continue
		}
		if f.Embedded() && name == "" {
			ft := f.Type()
			fv := sv[i]
			if pt, isPtr := ft.Underlying().(*types.Pointer); isPtr {
				p := fv.(PtrV)
				if p.isNil() {
					continue
				}
				fv = j.e.load(j.fr, nil, p)
				ft = pt.Elem()
			}
			if est, isStruct := ft.Underlying().(*types.Struct); isStruct {
				j.fields(fv.(StructV), est, first)
				continue
			}
		}
		if !f.Exported() {
			continue
		}
		if name == "" {
			name = f.Name()
		}
		if strings.Contains(opts, "omitempty") && j.isEmpty(sv[i], f.Type()) {
			continue
		}
		if !*first {
			j.lit(",")
		}
		*first = false
		j.lit(strconv.Quote(name) + ":")
		j.render(sv[i], f.Type())
	}
}

func extJSONMarshal(e *Exec, fr *frame, pos token.Pos, fn *ssa.Function, args []Value) Value {
	j := &jsonEnc{e: e, fr: fr, pos: pos}
	j.render(args[0], fn.Signature.Params().At(0).Type())
	if j.fail != "" {
		return TupleV{SliceV{}, e.mkError(j.fail)}
	}
	return TupleV{termsToSlice(j.out), IfaceV{}}
}

func init() {
	// uuid.New(): a fresh identifier per call (a per-path counter instead of crypto/rand): distinct
	// calls give distinct values, which is all its callers rely on.
	externals["github.com/google/uuid.New"] = func(e *Exec, _ *frame, _ token.Pos, _ *ssa.Function, a []Value) Value {
		e.uniq++
		arr := make(ArrayV, 16)
		for i := range arr {
			arr[i] = e.ts.Const(8, 0)
		}
		arr[14] = e.ts.Const(8, uint64(e.uniq>>8)&0xff)
		arr[15] = e.ts.Const(8, uint64(e.uniq)&0xff)
		arr[6] = e.ts.Const(8, 0x40)
		return arr
	}
}

func init() {
	// (*json.Encoder).Encode: the model's rendering plus a newline, written through the real
	// io.Writer the encoder was created with (SetEscapeHTML/SetIndent are not modelled)
	externals["(*encoding/json.Encoder).Encode"] = func(e *Exec, fr *frame, pos token.Pos, fn *ssa.Function, a []Value) Value {
		p, ok := a[0].(PtrV).single()
		if !ok {
			panic(unsupported("json.Encoder through nil/multi pointer"))
		}
		st := fn.Signature.Recv().Type().(*types.Pointer).Elem().Underlying().(*types.Struct)
		w := (*p).(StructV)[structFieldIndex(fn.Signature.Recv().Type().(*types.Pointer).Elem(), "w")].(IfaceV)
		_ = st
		j := &jsonEnc{e: e, fr: fr, pos: pos}
		j.render(a[1], fn.Signature.Params().At(0).Type())
		if j.fail != "" {
			return e.mkError(j.fail)
		}
		j.lit("\n")
		wf := e.ifaceMethod(w, "Write")
		if wf == nil {
			panic(unsupported("json.Encoder: writer without Write"))
		}
		r := e.call(fr, pos, wf, []Value{w.v, termsToSlice(j.out)}).(TupleV)
		return r[1]
	}
}
