package customfuncs

import (
	"github.com/jf-tech/omniparser/idr"
	zz "github.com/jf-tech/omniparser/zzverif"
)

// C20: arguments of one javascript call are never visible to a later call although VMs are
// pooled, and built-in globals stay available. The JavaScript engine is modelled by its
// global-variable table (engine/gojamodel.go); natively the equivalent real script runs in
// the real goja.

var zzProbeNames = []string{"a", "b", "Math", "JSON"}

func zzProbeScript(throws bool) string {
	if zz.Symbolic() {
		if throws {
			return "PROBE:a,b,Math,JSON,_node throw"
		}
		return "PROBE:a,b,Math,JSON,_node"
	}
	if throws {
		return `var r = [typeof a, typeof b, typeof Math, typeof JSON, typeof _node].join(","); throw new Error(r)`
	}
	return `[typeof a, typeof b, typeof Math, typeof JSON, typeof _node].join(",")`
}

func zzPickArgs(tag string) ([]interface{}, []bool) {
	var args []interface{}
	used := make([]bool, len(zzProbeNames))
	for i, n := range zzProbeNames {
		if zz.NondetBool(tag + "." + n) {
			args = append(args, n, "v-"+tag)
			used[i] = true
		}
	}
	return args, used
}

func C20VmHygiene() {
	zz.MapOrder(0)
	resetCaches()
	// first call: any subset of {a, b, Math} as argument names, script returns or throws
	args1, _ := zzPickArgs("c1")
	throws := zz.NondetBool("firstThrows")
	var err1 error
	if zz.NondetBool("firstWithContext") {
		// a javascript_with_context call: the record node's JSON is passed as _node
		ctxNode := idr.CreateNode(idr.ElementNode, "T")
		idr.AddChild(ctxNode, idr.CreateNode(idr.TextNode, "one"))
		_, err1 = JavaScriptWithContext(nil, ctxNode, zzProbeScript(throws), args1...)
	} else {
		_, err1 = JavaScript(nil, zzProbeScript(throws), args1...)
	}
	zz.Assert((err1 != nil) == throws, "first call fails iff its script throws")
	// second call (gets the pooled VM): sees exactly the built-ins plus its own arguments
	args2, used2 := zzPickArgs("c2")
	v, err := JavaScript(nil, zzProbeScript(false), args2...)
	zz.Assert(err == nil, "second call succeeds")
	want := ""
	for i, n := range zzProbeNames {
		if i > 0 {
			want += ","
		}
		switch {
		case used2[i]:
			want += "string"
		case n == "Math" || n == "JSON":
			want += "object"
		default:
			want += "undefined"
		}
	}
	want += ",undefined" // _node: the second call is a plain javascript call
	got, _ := v.(string)
	zz.Observe("probe", got)
	zz.Assert(got == want, "the second call sees the built-ins and its own arguments only")
	zz.Cover("second-call")
	// odd number of arguments is an error
	_, err = JavaScript(nil, zzProbeScript(false), "a")
	zz.Assert(err != nil, "odd number of name/value arguments is an error")
}

// C20NodeFresh: _node always reflects the node as it is now.
func C20NodeFresh() {
	zz.MapOrder(0)
	resetCaches()
	mk := func(parent *idr.Node, name, text string) *idr.Node {
		n := idr.CreateNode(idr.ElementNode, name)
		if parent != nil {
			idr.AddChild(parent, n)
		}
		if text != "" {
			idr.AddChild(n, idr.CreateNode(idr.TextNode, text))
		}
		return n
	}
	root := mk(nil, "R", "")
	rec1 := mk(root, "T", "one")
	switch zz.NondetChoice("scenario", 2) {
	case 0:
		// a recycled node: record 1 is released, record 2 is built from pooled nodes
		zz.Cover("recycled")
		texts := []string{"one", "two", "three", "four", "five", "six", "seven", "eight"}
		rec := rec1
		for i := 0; i < len(texts); i++ {
			// both the record and its text child serve as script context, like a schema that
			// evaluates javascript_with_context on the record and on one of its fields
			zz.Assert(getNodeJSON(rec) == idr.JSONify2(rec), "_node of a node built from recycled memory is that node's JSON")
			zz.Assert(getNodeJSON(rec.FirstChild) == idr.JSONify2(rec.FirstChild), "_node of a node built from recycled memory is that node's JSON")
			idr.RemoveAndReleaseTree(rec)
			if i+1 < len(texts) {
				rec = mk(root, "T", texts[i+1])
			}
		}
	default:
		// an ancestor that changes between records
		zz.Cover("ancestor")
		_ = getNodeJSON(root)
		idr.RemoveAndReleaseTree(rec1)
		mk(root, "T", "two")
		// F5: the process-wide node-JSON cache is keyed by the ancestor's unchanged ID
		zz.KnownRegion("F5", true)
		zz.Assert(getNodeJSON(root) == idr.JSONify2(root), "_node of an ancestor reflects its present content")
	}
}

// C14ParJS: two goroutines run javascript custom functions at the same time over the shared VM
// pool and program cache (the same script text, so the program is shared). For every
// interleaving within the preemption bound: no VM is used by two threads without
// synchronisation (race monitor), and each call sees the built-ins and its own arguments only —
// the result it would obtain running alone.
func C14ParJS() {
	zz.MapOrder(0)
	resetCaches()
	argsA, usedA := zzPickArgs("A")
	argsB, usedB := zzPickArgs("B")
	warm := zz.NondetBool("pooledVM")
	want := func(used []bool) string {
		w := ""
		for i, n := range zzProbeNames {
			if i > 0 {
				w += ","
			}
			switch {
			case used[i]:
				w += "string"
			case n == "Math" || n == "JSON":
				w += "object"
			default:
				w += "undefined"
			}
		}
		return w + ",undefined"
	}
	iters := zz.Stress(200)
	for it := 0; it < iters; it++ {
		if warm {
			// one VM already in the pool: both threads may contend for it
			_, _ = JavaScript(nil, zzProbeScript(false))
		}
		var ra, rb interface{}
		var ea, eb error
		zz.Par(func() {
			ra, ea = JavaScript(nil, zzProbeScript(false), argsA...)
		}, func() {
			rb, eb = JavaScript(nil, zzProbeScript(false), argsB...)
		})
		zz.Cover("joined")
		zz.Assert(ea == nil && eb == nil, "both concurrent calls succeed")
		ga, _ := ra.(string)
		gb, _ := rb.(string)
		zz.Assert(ga == want(usedA), "thread A sees the built-ins and its own arguments only")
		zz.Assert(gb == want(usedB), "thread B sees the built-ins and its own arguments only")
	}
}

// C08CopyScalars: the copy custom function gives back the JSON value the node stands for, also
// when the node handed to it is a scalar itself (a number / boolean / null / string element of
// an array streamed as its own record, or a scalar property): the value keeps its JSON type.
func C08CopyScalars() {
	kind := zz.NondetChoice("kind", 5)
	asProp := zz.NondetBool("property")
	// as the JSON stream reader builds them: a scalar array element is an anonymous property
	// node with a value child, a property has its name
	name := ""
	if asProp {
		name = "k"
	}
	n := idr.CreateJSONNode(idr.ElementNode, name, idr.JSONProp)
	var want interface{}
	switch kind {
	case 0:
		v := zz.NondetBytesN("s", 1)
		zz.Assume(zz.ByteIn(v[0], "a1 "))
		idr.AddChild(n, idr.CreateJSONNode(idr.TextNode, string(v), idr.JSONValueStr))
		want = string(v)
	case 1:
		idr.AddChild(n, idr.CreateJSONNode(idr.TextNode, "42", idr.JSONValueNum))
		want = float64(42)
	case 2:
		b := zz.NondetBool("b")
		text := "false"
		if b {
			text = "true"
		}
		idr.AddChild(n, idr.CreateJSONNode(idr.TextNode, text, idr.JSONValueBool))
		want = b
	case 3:
		idr.AddChild(n, idr.CreateJSONNode(idr.TextNode, "", idr.JSONValueNull))
		want = nil
	default:
		// an object with one numeric member: {"m": 7}
		if asProp {
			n.FormatSpecific = idr.JSONProp | idr.JSONObj
		} else {
			n.FormatSpecific = idr.JSONObj // an anonymous object element of an array
		}
		m := idr.CreateJSONNode(idr.ElementNode, "m", idr.JSONProp)
		idr.AddChild(n, m)
		idr.AddChild(m, idr.CreateJSONNode(idr.TextNode, "7", idr.JSONValueNum))
		want = map[string]interface{}{"m": float64(7)}
	}
	got, err := CopyFunc(nil, n)
	zz.Assert(err == nil, "copy does not fail")
	switch w := want.(type) {
	case nil:
		zz.Assert(got == nil, "null stays null")
	case string:
		g, ok := got.(string)
		zz.Assert(ok && g == w, "string stays that string")
	case float64:
		g, ok := got.(float64)
		zz.Assert(ok && g == w, "number stays a number")
	case bool:
		g, ok := got.(bool)
		zz.Assert(ok && g == w, "boolean stays a boolean")
	default:
		g, ok := got.(map[string]interface{})
		zz.Assert(ok && len(g) == 1, "object stays an object")
		if ok {
			f, isNum := g["m"].(float64)
			zz.Assert(isNum && f == 7, "its member keeps its type")
		}
	}
	zz.Cover("copied")
}


// C20NodeArg: _node is the current node's JSON even when a named argument happens to be called
// _node, wherever that argument stands in the list: the script never sees a caller-supplied value
// in its place.
func C20NodeArg() {
	zz.MapOrder(0)
	resetCaches()
	ctxNode := idr.CreateNode(idr.ElementNode, "T")
	idr.AddChild(ctxNode, idr.CreateNode(idr.TextNode, "one"))
	var args []interface{}
	if zz.NondetBool("argBefore") {
		args = append(args, "a", "v")
	}
	args = append(args, "_node", 42)
	if zz.NondetBool("argAfter") {
		args = append(args, "b", "v")
	}
	v, err := JavaScriptWithContext(nil, ctxNode, zzProbeScript(false), args...)
	zz.Assert(err == nil, "the call succeeds")
	got, _ := v.(string)
	zz.Observe("probe", got)
	n := len(got)
	zz.Assert(n >= 7 && got[n-7:] == ",string", "_node is the node's JSON text, not the argument of the same name")
	zz.Cover("ran")
}

// C20Results: a script whose result is NaN, +Infinity, -Infinity, null or undefined is an error,
// never a value; the engine-side goja model produces these result kinds for the marker scripts,
// natively the real goja evaluates the equivalent expressions.
func C20Results() {
	resetCaches()
	k := zz.NondetChoice("kind", 6)
	sym := []string{"RESULT:nan", "RESULT:posinf", "RESULT:neginf", "RESULT:null", "RESULT:undefined", "PROBE:a"}[k]
	nat := []string{"0/0", "1/0", "-1/0", "null", "undefined", "typeof a"}[k]
	script := nat
	if zz.Symbolic() {
		script = sym
	}
	v, err := JavaScript(nil, script)
	if k < 5 {
		zz.Cover("rejected")
		zz.Assert(err != nil && v == nil, "a NaN / infinite / null / undefined result is an error, not a value")
	} else {
		zz.Cover("value")
		zz.Assert(err == nil && v != nil, "an ordinary result is returned")
	}
}

// C20ProgramCache: the compiled-program cache is keyed by the script text itself: two scripts
// that differ only in whitespace inside a string literal are different programs.
func C20ProgramCache() {
	resetCaches()
	lits := []string{"x y", "x  y", "x\ty"}
	i := zz.NondetChoice("first", len(lits))
	j := zz.NondetChoice("second", len(lits))
	mk := func(l string) string {
		if zz.Symbolic() {
			return "PROBE:a LIT:'" + l + "'"
		}
		return "[typeof a].join(',') + '|" + l + "'"
	}
	unq := func(l string) string {
		if l == "x\\ty" {
			return "x\ty"
		}
		return l
	}
	_ = unq
	r1, e1 := JavaScript(nil, mk(lits[i]))
	r2, e2 := JavaScript(nil, mk(lits[j]))
	zz.Assert(e1 == nil && e2 == nil, "both scripts run")
	s1, _ := r1.(string)
	s2, _ := r2.(string)
	zz.Observe("results", s1, s2)
	zz.Assert((s1 == s2) == (i == j), "each script gives its own result, whichever was compiled first")
	zz.Cover("ran")
}
