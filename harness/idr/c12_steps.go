package idr

import (
	zz "github.com/jf-tech/omniparser/zzverif"
)

func zzAllLive(n int) []bool {
	l := make([]bool, n)
	for i := range l {
		l[i] = true
	}
	return l
}

// C12RemoveStep: one RemoveAndReleaseTree from an arbitrary well-formed forest.
func C12RemoveStep() {
	N := zz.Param("N", 4)
	h := zzSymHeap(N)
	nodes := h.nodes
	live := zzAllLive(N)
	zz.Assume(specWfForest(nodes, live, h.rank, h.pos))
	// IDs in use are pairwise distinct and below the counter
	for i := range nodes {
		for j := i + 1; j < N; j++ {
			zz.Assume(nodes[i].ID != nodes[j].ID)
		}
	}
	nodeID = int64(zz.NondetInt("counter", 1<<20, 1<<21))
	counter0 := nodeID

	x := zzNondetPickNode("x", nodes)
	// snapshot what the post-condition refers to
	inSub := make([]bool, N)
	oldParent := make([]*Node, N)
	oldID := make([]int64, N)
	for i := range nodes {
		inSub[i] = specInSubtree(nodes, nodes[i], x)
		oldParent[i] = nodes[i].Parent
		oldID[i] = nodes[i].ID
	}
	xi := specIdx(nodes, x)
	xParent := x.Parent
	xPos := specAt(h.pos, xi)

	RemoveAndReleaseTree(x)
	zz.Cover("removed")

	post := make([]bool, N)
	npos := make([]int, N)
	for i := range nodes {
		post[i] = !inSub[i]
		// siblings after x move up by one
		shift := post[i] && xParent != nil && oldParent[i] == xParent && h.pos[i] > xPos
		npos[i] = zz.IteInt(shift, h.pos[i]-1, h.pos[i])
	}
	zz.Assert(specWfForest(nodes, post, h.rank, npos), "forest well-formed after removal, child order kept")
	for i := range nodes {
		if post[i] {
			zz.Assert(nodes[i].Parent == oldParent[i], "surviving node keeps its parent")
			zz.Assert(nodes[i].ID == oldID[i], "surviving node keeps its ID")
		} else {
			zz.Assert(specBlank(nodes[i]), "released node is blank")
			zz.Assert(nodes[i].ID > counter0-0 && nodes[i].ID != oldID[i], "released node got a fresh ID")
		}
	}
	zz.Assert(nodeID >= counter0, "ID counter is monotone")
}

// C12AddStep: AddChild(parent, fresh node) on an arbitrary well-formed forest.
func C12AddStep() {
	N := zz.Param("N", 4)
	h := zzSymHeap(N)
	nodes := h.nodes
	live := zzAllLive(N)
	zz.Assume(specWfForest(nodes, live, h.rank, h.pos))
	p := zzNondetPickNode("p", nodes)
	pi := specIdx(nodes, p)
	// number of children of p and the position the new child must take
	oldLast := p.LastChild
	oldFirst := p.FirstChild
	lastPos := specAt(h.pos, specIdx(nodes, oldLast))
	oldParent := make([]*Node, N)
	for i := range nodes {
		oldParent[i] = nodes[i].Parent
	}
	c := &Node{ID: 7777777, Type: ElementNode, Data: "c"}
	AddChild(p, c)
	zz.Cover("added")
	all := make([]*Node, 0, N+1)
	all = append(all, nodes...)
	all = append(all, c)
	live2 := zzAllLive(N + 1)
	rank2 := make([]int, N+1)
	pos2 := make([]int, N+1)
	copy(rank2, h.rank)
	copy(pos2, h.pos)
	rank2[N] = specAt(h.rank, pi) + 1
	pos2[N] = zz.IteInt(oldFirst == nil, 0, lastPos+1)
	zz.Assert(specWfForest(all, live2, rank2, pos2), "forest well-formed after AddChild, new child is last")
	zz.Assert(c.Parent == p && p.LastChild == c && c.NextSibling == nil && c.PrevSibling == oldLast, "new child appended at the end")
	for i := range nodes {
		zz.Assert(nodes[i].Parent == oldParent[i], "AddChild leaves other parents alone")
	}
}

// C12CreateStep: a freshly obtained node is blank and carries a brand-new ID; a node that
// went through the pool is indistinguishable from a new one.
func C12CreateStep() {
	nodeID = int64(zz.NondetInt("counter", 0, 1<<20))
	counter0 := nodeID
	// optionally a recycled node sits in the pool, having had arbitrary content before
	if zz.NondetBool("recycledInPool") {
		old := CreateNode(NodeType(zz.NondetInt("otype", 0, 3)), string(zz.NondetBytesN("odata", 1)))
		child := CreateNode(TextNode, "x")
		AddChild(old, child)
		old.FormatSpecific = 5
		RemoveAndReleaseTree(old)
		zz.Cover("pool-nonempty")
	}
	mid := nodeID
	t := NodeType(zz.NondetInt("type", 0, 3))
	d := string(zz.NondetBytesN("data", 1))
	n := CreateNode(t, d)
	zz.Assert(n.Type == t && n.Data == d, "created node has the requested type and data")
	zz.Assert(n.Parent == nil && n.FirstChild == nil && n.LastChild == nil && n.PrevSibling == nil && n.NextSibling == nil && n.FormatSpecific == nil,
		"created node is otherwise blank")
	zz.Assert(n.ID > counter0, "created node's ID was never issued before this scenario")
	zz.Assert(nodeID >= mid, "counter monotone")
	m := CreateNode(t, d)
	zz.Assert(m != n, "two acquisitions never return the same node")
	zz.Assert(m.ID != n.ID, "two acquisitions carry different IDs")
	// whichever pooled node comes back first, every acquisition is blank
	zz.Assert(m.Parent == nil && m.FirstChild == nil && m.LastChild == nil && m.PrevSibling == nil && m.NextSibling == nil && m.FormatSpecific == nil,
		"created node is otherwise blank")
	k := CreateNode(t, d)
	zz.Assert(k.Parent == nil && k.FirstChild == nil && k.LastChild == nil && k.PrevSibling == nil && k.NextSibling == nil && k.FormatSpecific == nil,
		"created node is otherwise blank")
	zz.Assert(k != n && k != m && k.ID != n.ID && k.ID != m.ID, "two acquisitions carry different IDs")
	zz.Cover("created")
}
