package main

import (
	"fmt"
	"go/types"
	"strings"

	"golang.org/x/tools/go/ssa"
)

// Value is one of:
//   *Term      bool / integer (bit-vector; width from the Go type; int = 64)
//   FloatV     concrete float64 only
//   StrV       string: concrete length, symbolic bytes
//   StructV    struct by value
//   ArrayV     array by value
//   SliceV     slice (Go slice over the backing []Value gives aliasing, len, cap)
//   PtrV       pointer: guarded target set (usually one target with guard true)
//   IfaceV     interface value
//   *MapV      map
//   TupleV     multiple results
//   *Closure / *ssa.Function / *ssa.Builtin   function values
//   *MapIter / *StrIter  range iterators
//   OpaqueV    engine-side object handed to intrinsics (sync.Pool bag, builder, ...)
type Value interface{}

type FloatV struct{ f float64 }

type StrV struct{ b []*Term }

type StructV []Value
type ArrayV []Value

type SliceV struct {
	data []Value // nil = nil slice
}

type PtrTarget struct {
	g   *Term   // guard
	p   *Value  // concrete location, or nil
	arr []Value // with idx: symbolic element of arr
	idx *Term
}

type PtrV struct {
	tgs []PtrTarget // empty = nil pointer; a target with p==nil && arr==nil is nil
	fn  bool
}

type IfaceV struct {
	t types.Type // nil = nil interface
	v Value
}

type MapV struct {
	keys []Value
	vals []Value
	kt   types.Type
	vt   types.Type
	id   int
}

type TupleV []Value

type Closure struct {
	fn  *ssa.Function
	env []Value
}

type OpaqueV struct{ x interface{} }

func (p PtrV) isNil() bool {
	if len(p.tgs) == 0 {
		return true
	}
	if len(p.tgs) == 1 && p.tgs[0].p == nil && p.tgs[0].arr == nil {
		return true
	}
	return false
}

func (t PtrTarget) isNil() bool { return t.p == nil && t.arr == nil }

func mkPtr(p *Value) PtrV {
	if p == nil {
		return PtrV{}
	}
	return PtrV{tgs: []PtrTarget{{p: p}}}
}

func (p PtrV) single() (*Value, bool) {
	if len(p.tgs) == 1 && p.tgs[0].p != nil && (p.tgs[0].g == nil || p.tgs[0].g.IsTrue()) {
		return p.tgs[0].p, true
	}
	return nil, false
}

func intWidth(t types.Type) (w int, signed bool, ok bool) {
	b, isB := t.Underlying().(*types.Basic)
	if !isB {
		return 0, false, false
	}
	switch b.Kind() {
	case types.Bool, types.UntypedBool:
		return 0, false, true
	case types.Int, types.Int64, types.UntypedInt:
		return 64, true, true
	case types.Int8:
		return 8, true, true
	case types.Int16:
		return 16, true, true
	case types.Int32, types.UntypedRune:
		return 32, true, true
	case types.Uint, types.Uint64, types.Uintptr:
		return 64, false, true
	case types.Uint8:
		return 8, false, true
	case types.Uint16:
		return 16, false, true
	case types.Uint32:
		return 32, false, true
	}
	return 0, false, false
}

func isString(t types.Type) bool {
	b, ok := t.Underlying().(*types.Basic)
	return ok && b.Info()&types.IsString != 0
}

func isFloat(t types.Type) bool {
	b, ok := t.Underlying().(*types.Basic)
	return ok && b.Info()&types.IsFloat != 0
}

func (e *Exec) zero(t types.Type) Value {
	switch u := t.Underlying().(type) {
	case *types.Basic:
		if w, _, ok := intWidth(t); ok {
			return e.ts.Const(w, 0)
		}
		if isString(t) {
			return StrV{}
		}
		if isFloat(t) {
			return FloatV{0}
		}
		if u.Kind() == types.UnsafePointer {
			return PtrV{}
		}
		if u.Kind() == types.UntypedNil || u.Kind() == types.Invalid {
			return nil
		}
		panic(unsupported("zero of basic type " + t.String()))
	case *types.Struct:
		s := make(StructV, u.NumFields())
		for i := range s {
			s[i] = e.zero(u.Field(i).Type())
		}
		return s
	case *types.Array:
		a := make(ArrayV, u.Len())
		for i := range a {
			a[i] = e.zero(u.Elem())
		}
		return a
	case *types.Pointer:
		return PtrV{}
	case *types.Slice:
		return SliceV{}
	case *types.Map:
		return (*MapV)(nil)
	case *types.Interface:
		return IfaceV{}
	case *types.Signature:
		return (*Closure)(nil)
	case *types.Chan:
		return nil
	case *types.Tuple:
		tv := make(TupleV, u.Len())
		for i := range tv {
			tv[i] = e.zero(u.At(i).Type())
		}
		return tv
	}
	panic(unsupported("zero of type " + t.String()))
}

// copyVal: value semantics for structs and arrays.
func copyVal(v Value) Value {
	switch x := v.(type) {
	case StructV:
		c := make(StructV, len(x))
		for i := range x {
			c[i] = copyVal(x[i])
		}
		return c
	case ArrayV:
		c := make(ArrayV, len(x))
		for i := range x {
			c[i] = copyVal(x[i])
		}
		return c
	}
	return v
}

func (e *Exec) strConst(s string) StrV {
	b := make([]*Term, len(s))
	for i := 0; i < len(s); i++ {
		b[i] = e.ts.Const(8, uint64(s[i]))
	}
	return StrV{b}
}

// concrete content of a string if all bytes are constants
func (s StrV) conc() (string, bool) {
	buf := make([]byte, len(s.b))
	for i, t := range s.b {
		if !t.IsConst() {
			return "", false
		}
		buf[i] = byte(t.val)
	}
	return string(buf), true
}

func (s StrV) show() string {
	if c, ok := s.conc(); ok {
		return fmt.Sprintf("%q", c)
	}
	var sb strings.Builder
	sb.WriteString("str[")
	for i, t := range s.b {
		if i > 0 {
			sb.WriteString(" ")
		}
		sb.WriteString(t.String())
	}
	sb.WriteString("]")
	return sb.String()
}

func bytesOf(v Value) ([]*Term, bool) {
	switch x := v.(type) {
	case StrV:
		return x.b, true
	case SliceV:
		r := make([]*Term, len(x.data))
		for i, el := range x.data {
			t, ok := el.(*Term)
			if !ok {
				return nil, false
			}
			r[i] = t
		}
		return r, true
	}
	return nil, false
}

func termsToSlice(b []*Term) SliceV {
	d := make([]Value, len(b))
	for i, t := range b {
		d[i] = t
	}
	return SliceV{data: d}
}

type unsupportedErr struct{ msg string }

func unsupported(msg string) unsupportedErr { return unsupportedErr{msg} }

// targetPanic is a Go-level panic of the program under analysis.
type targetPanic struct {
	msg string
	pos string
}

// pathEnd terminates the current path silently (assume failed, infeasible, ...).
type pathEnd struct{ why string }

func showVal(v Value) string {
	switch x := v.(type) {
	case nil:
		return "nil"
	case *Term:
		return x.String()
	case StrV:
		return x.show()
	case FloatV:
		return fmt.Sprint(x.f)
	case StructV:
		var parts []string
		for _, f := range x {
			parts = append(parts, showVal(f))
		}
		return "{" + strings.Join(parts, ", ") + "}"
	case ArrayV:
		var parts []string
		for _, f := range x {
			parts = append(parts, showVal(f))
		}
		return "[" + strings.Join(parts, ", ") + "]"
	case SliceV:
		if x.data == nil {
			return "nil-slice"
		}
		if len(x.data) > 16 {
			return fmt.Sprintf("slice(len=%d)", len(x.data))
		}
		var parts []string
		for _, f := range x.data {
			parts = append(parts, showVal(f))
		}
		return "[]{" + strings.Join(parts, ", ") + "}"
	case PtrV:
		if x.isNil() {
			return "nil-ptr"
		}
		return fmt.Sprintf("ptr(%d targets)", len(x.tgs))
	case IfaceV:
		if x.t == nil {
			return "nil-iface"
		}
		return "iface(" + x.t.String() + ")"
	case *MapV:
		if x == nil {
			return "nil-map"
		}
		return fmt.Sprintf("map(%d)", len(x.keys))
	case TupleV:
		var parts []string
		for _, f := range x {
			parts = append(parts, showVal(f))
		}
		return "(" + strings.Join(parts, ", ") + ")"
	}
	return fmt.Sprintf("%T", v)
}

// hangPanic: a loop exceeded its unwinding bound in a harness that declared every loop
// bounded (termination is the property).
type hangPanic struct{ where string }
