#!/bin/sh
# usage: check.sh <property> <quick|thorough>
# Builds the engine if needed, then runs the property's harnesses symbolically against
# /repo's current working tree (go/ssa is rebuilt from source on every run).
export GOFLAGS=-mod=mod GOPROXY=off GOSUMDB=off GOTOOLCHAIN=local
cd /verif || exit 2
if [ ! -x bin/gosmt ] || [ -n "$(find engine -name '*.go' -newer bin/gosmt 2>/dev/null | head -1)" ]; then
  (cd engine && go build -o ../bin/gosmt .) || { echo "INCONCLUSIVE: engine build failed"; exit 2; }
fi
p=$1; t=${2:-quick}; [ $# -ge 1 ] && shift; [ $# -ge 1 ] && shift
exec ./bin/gosmt check "$p" --tier "$t" "$@"
