package csv

import (
	"io"

	"github.com/jf-tech/omniparser/idr"
	zz "github.com/jf-tech/omniparser/zzverif"
)

type zzTable struct {
	input []byte
	rows  [][][]byte
}

// zzMakeTable: 1..NR rows of 1..NF fields of 0..FL symbolic plain bytes (printable ASCII other
// than the delimiter and the quote); EOL LF / CRLF / none at the very end.
func zzMakeTable(NR, NF, FL int, delim byte) *zzTable {
	t := &zzTable{}
	n := 1 + zz.NondetChoice("nrows", NR)
	for i := 0; i < n; i++ {
		nf := 1 + zz.NondetChoice("nfields", NF)
		var row [][]byte
		for j := 0; j < nf; j++ {
			f := zz.NondetBytes("field", FL)
			for _, x := range f {
				zz.Assume(zz.ByteRange(x, 0x21, 0x7E))
				zz.Assume(!zz.ByteIn(x, string([]byte{delim, '"'})))
			}
			if j > 0 {
				t.input = append(t.input, delim)
			}
			t.input = append(t.input, f...)
			row = append(row, f)
		}
		if !(nf == 1 && len(row[0]) == 0) { // encoding/csv skips empty lines
			t.rows = append(t.rows, row)
		}
		switch zz.NondetChoice("eol", 3) {
		case 0:
			t.input = append(t.input, '\n')
		case 1:
			t.input = append(t.input, '\r', '\n')
		default:
			if i < n-1 {
				t.input = append(t.input, '\n')
			}
		}
	}
	return t
}

func zzColText(n *idr.Node, k int) (string, bool) {
	c := n.FirstChild
	for i := 0; i < k && c != nil; i++ {
		c = c.NextSibling
	}
	if c == nil || c.FirstChild == nil {
		return "", false
	}
	return c.FirstChild.Data, true
}

func zzCountKids(n *idr.Node) int {
	k := 0
	for c := n.FirstChild; c != nil; c = c.NextSibling {
		k++
	}
	return k
}

func zzTrim(b []byte) string {
	lo, hi := 0, len(b)
	for lo < hi && b[lo] == ' ' {
		lo++
	}
	for hi > lo && b[hi-1] == ' ' {
		hi--
	}
	return string(b[lo:hi])
}

// C06CsvOld: the old csv reader: a declared header row that does not match is rejected on
// the first Read and no record is ever produced; data rows start at data_row_index; each
// record holds min(len(row), len(columns)) fields with exactly the row's text.
func C06CsvOld() {
	NR := zz.Param("NR", 3)
	NF := zz.Param("NF", 2)
	FL := zz.Param("FL", 1)
	t := zzMakeTable(NR, NF, FL, ',')
	ncols := 1 + zz.NondetChoice("ncols", 2)
	cols := []Column{{Name: "a"}, {Name: "b"}}[:ncols]
	decl := &FileDecl{Delimiter: ",", Columns: cols}
	withHeader := zz.NondetBool("withHeader")
	if withHeader && zz.NondetBool("aliased") {
		// an alias renames the output field; the header row is still checked against the name
		al := "c"
		cols[0].Alias = &al
	}
	hdr := 0
	if withHeader {
		hdr = 1 + zz.NondetChoice("hdr", 2)
		decl.HeaderRowIndex = &hdr
		decl.DataRowIndex = hdr + 1 + zz.NondetChoice("gap", 2)
	} else {
		decl.DataRowIndex = 1 + zz.NondetChoice("data", 2)
	}
	r, err := NewReader("t", &zzChunkReader{data: t.input, failAt: -1}, decl, "")
	zz.Assume(err == nil)

	// reference (rows are numbered by line; every row is exactly one line here)
	headerOK := true
	if withHeader {
		if hdr > len(t.rows) {
			headerOK = false
		} else {
			h := t.rows[hdr-1]
			if len(h) < ncols {
				headerOK = false
			} else {
				for i := 0; i < ncols; i++ {
					if zzTrim(h[i]) != cols[i].Name {
						headerOK = false
					}
				}
			}
		}
	}
	// no blank lines in the input ⇒ line number == row number
	blank := len(t.rows) != zzCountRows(t)
	zz.Assume(!blank)
	first := decl.DataRowIndex - 1
	got := 0
	for i := 0; i < NR+2; i++ {
		n, err := r.Read()
		if !headerOK {
			zz.Cover("header-rejected")
			zz.Assert(n == nil && err != nil && IsErrInvalidHeader(err) && !r.IsContinuableError(err),
				"a mismatching (or missing) declared header is a fatal ErrInvalidHeader and no record is produced")
			return
		}
		if err != nil {
			zz.Cover("eof")
			zz.Assert(err == io.EOF, "well-formed rows: the only terminal result is EOF")
			want := len(t.rows) - first
			if want < 0 {
				want = 0
			}
			zz.Assert(got == want, "every data row from data_row_index on was delivered")
			return
		}
		zz.Cover("record")
		zz.Assert(first+got < len(t.rows), "a record for every data row only")
		if first+got < len(t.rows) {
			row := t.rows[first+got]
			k := len(row)
			if ncols < k {
				k = ncols
			}
			zz.Assert(zzCountKids(n) == k, "record has min(len(row), len(columns)) fields")
			for c := 0; c < k; c++ {
				text, ok := zzColText(n, c)
				zz.Assert(ok && text == string(row[c]), "field text is exactly the row's field")
			}
		}
		got++
		r.Release(n)
	}
	zz.Fail("no terminal result within the read bound")
}

func zzCountRows(t *zzTable) int {
	// number of physical lines in the input (a trailing line without newline counts)
	n := 0
	cur := 0
	for _, b := range t.input {
		if b == '\n' {
			n++
			cur = 0
		} else if b != '\r' {
			cur++
		}
	}
	if cur > 0 {
		n++
	}
	return n
}

// C16CsvOld: a failing source must end the old csv reader with a fatal non-EOF error within
// a bounded number of Reads, never an endless run of continuable errors.
func C16CsvOld() {
	NR := zz.Param("NR", 3)
	t := zzMakeTable(NR, 2, 1, ',')
	decl := &FileDecl{Delimiter: ",", DataRowIndex: 1 + zz.NondetChoice("data", 2), Columns: []Column{{Name: "a"}, {Name: "b"}}}
	if zz.NondetBool("withHeader") {
		decl.HeaderRowIndex = zzIntPtr(1)
		decl.DataRowIndex++
	}
	failAt := zz.NondetChoice("failAt", len(t.input)+1)
	r, err := NewReader("t", &zzChunkReader{data: t.input, failAt: failAt, ioErr: zzPickIOErr()}, decl, "")
	zz.Assume(err == nil)
	continuable := 0
	for i := 0; i < NR+6; i++ {
		n, err := r.Read()
		if err == nil {
			r.Release(n)
			continue
		}
		if err == io.EOF {
			zz.Fail("a failing source ended in a clean EOF")
			return
		}
		if !r.IsContinuableError(err) {
			zz.Cover("fatal")
			return
		}
		continuable++
	}
	zz.Cover("bounded-out")
	// F3: record-fetch failures are plain (continuable) errors, forever
	zz.KnownRegion("F3", continuable >= 3)
	zz.Assert(continuable < 3, "a persistent source failure surfaces as an endless run of continuable errors")
}

// C03CsvOld: no hang, no panic for every delimiter the JSON schema admits (any single
// character) and every header/data row index: the first Read returns.
func C03CsvOld() {
	zz.HangIsViolation()
	NR := zz.Param("NR", 2)
	delims := []string{",", "|", "\"", "\r", "\n", "\t"}
	d := delims[zz.NondetChoice("delim", len(delims))]
	t := zzMakeTable(NR, 2, 1, ',')
	decl := &FileDecl{Delimiter: d, DataRowIndex: 1 + zz.NondetChoice("data", 3), Columns: []Column{{Name: "a"}}}
	if zz.NondetBool("withHeader") {
		decl.HeaderRowIndex = zzIntPtr(1)
		decl.DataRowIndex++
	}
	r, err := NewReader("t", &zzChunkReader{data: t.input, failAt: -1}, decl, "")
	zz.Assume(err == nil)
	// at most one record or one continuable (per-row syntax) error per physical line, plus one
	// for positioning: a terminal result must come within 2*NR+4 Reads
	for i := 0; i < 2*NR+4; i++ {
		n, err := r.Read()
		if err == nil {
			r.Release(n)
			continue
		}
		if err == io.EOF || !r.IsContinuableError(err) {
			zz.Cover("terminal")
			return
		}
	}
	zz.Fail("the read loop does not end: no EOF and no fatal error within 2*NR+4 Reads of an input of at most NR lines")
}

// C06CsvOldTall: header_row_index / data_row_index count physical lines, and a record can span
// several of them (a quoted field with an embedded line break). Rows here are one or two lines
// tall; the record taken as header is the first one starting at or after the header line, data
// starts with the first record at or after the data line; every delivered record carries its
// own row's text (incl. the line break inside the quoted field).
func C06CsvOldTall() {
	NR := zz.Param("NR", 4)
	n := 1 + zz.NondetChoice("nrows", NR)
	var input []byte
	var rows [][][]byte
	var lines []int
	for i := 0; i < n; i++ {
		f := zz.NondetBytesN("f", 1)
		zz.Assume(zz.ByteIn(f[0], "ab1"))
		tall := zz.NondetBool("tall")
		var first []byte
		if tall {
			g := zz.NondetBytesN("g", 1)
			zz.Assume(zz.ByteIn(g[0], "ab1"))
			first = []byte{f[0], '\n', g[0]}
			input = append(input, '"', f[0], '\n', g[0], '"')
			lines = append(lines, 2)
		} else {
			first = []byte{f[0]}
			input = append(input, f[0])
			lines = append(lines, 1)
		}
		row := [][]byte{first}
		if zz.NondetBool("second") {
			s := zz.NondetBytesN("s", 1)
			zz.Assume(zz.ByteIn(s[0], "ab1"))
			input = append(input, ',', s[0])
			row = append(row, []byte{s[0]})
		}
		input = append(input, '\n')
		rows = append(rows, row)
	}
	cols := []Column{{Name: "a"}}
	decl := &FileDecl{Delimiter: ",", Columns: cols}
	withHeader := zz.NondetBool("withHeader")
	hdr := 0
	if withHeader {
		hdr = 1 + zz.NondetChoice("hdr", 3)
		decl.HeaderRowIndex = &hdr
		decl.DataRowIndex = hdr + 1 + zz.NondetChoice("gap", 2)
	} else {
		decl.DataRowIndex = 1 + zz.NondetChoice("data", 4)
	}
	r, err := NewReader("t", &zzChunkReader{data: input, failAt: -1}, decl, "")
	zz.Assume(err == nil)

	// reference over physical lines
	consumed, k := 0, 0
	skipTo := func(line int) { // consume records until `line` lines are behind us
		for k < len(rows) && consumed < line {
			consumed += lines[k]
			k++
		}
	}
	headerOK := true
	if withHeader {
		skipTo(hdr - 1)
		if k >= len(rows) {
			headerOK = false
		} else {
			headerOK = zzTrim(rows[k][0]) == "a"
			consumed += lines[k]
			k++
		}
	}
	skipTo(decl.DataRowIndex - 1)
	first := k
	got := 0
	for i := 0; i < NR+2; i++ {
		node, err := r.Read()
		if !headerOK {
			zz.Cover("header-rejected")
			zz.Assert(node == nil && err != nil && IsErrInvalidHeader(err), "a mismatching (or missing) header is ErrInvalidHeader")
			return
		}
		if err != nil {
			zz.Cover("eof")
			zz.Assert(err == io.EOF, "well-formed rows: the only terminal result is EOF")
			zz.Assert(got == len(rows)-first, "every record from the data line on was delivered, none before it")
			return
		}
		zz.Cover("record")
		zz.Assert(first+got < len(rows), "a record for every data row only")
		if first+got < len(rows) {
			text, ok := zzColText(node, 0)
			zz.Assert(ok && text == string(rows[first+got][0]), "field text is exactly the row's field")
		}
		got++
		r.Release(node)
	}
	zz.Fail("no terminal result within the read bound")
}
