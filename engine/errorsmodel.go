package main

// errors.Is / errors.Unwrap / errors.As executed engine-side (the real ones go through
// internal/reflectlite): the chain is walked through the dynamic types' Unwrap() error and
// Is(error) bool methods, which run as real code.

import (
	"go/token"
	"go/types"

	"golang.org/x/tools/go/ssa"
)

func init() {
	externals["errors.Is"] = extErrorsIs
	externals["errors.Unwrap"] = func(e *Exec, fr *frame, pos token.Pos, fn *ssa.Function, a []Value) Value {
		return e.errUnwrap(fr, pos, a[0].(IfaceV))
	}
}

// ifaceMethod finds method name (no package: exported) on the dynamic type of v.
func (e *Exec) ifaceMethod(v IfaceV, name string) *ssa.Function {
	if v.t == nil {
		return nil
	}
	if _, isOpaque := v.v.(OpaqueV); isOpaque {
		return nil
	}
	ms := e.prog.MethodSets.MethodSet(v.t)
	for i := 0; i < ms.Len(); i++ {
		sel := ms.At(i)
		if sel.Obj().Name() == name {
			return e.prog.MethodValue(sel)
		}
	}
	return nil
}

func (e *Exec) errUnwrap(fr *frame, pos token.Pos, err IfaceV) Value {
	f := e.ifaceMethod(err, "Unwrap")
	if f == nil {
		return IfaceV{}
	}
	sig := f.Signature
	if sig.Params().Len() != 0 || sig.Results().Len() != 1 {
		return IfaceV{}
	}
	if _, isIface := sig.Results().At(0).Type().Underlying().(*types.Interface); !isIface {
		return IfaceV{} // Unwrap() []error: not followed by errors.Unwrap
	}
	r := e.call(fr, pos, f, []Value{err.v})
	if iv, ok := r.(IfaceV); ok {
		return iv
	}
	return IfaceV{}
}

func extErrorsIs(e *Exec, fr *frame, pos token.Pos, fn *ssa.Function, a []Value) Value {
	err, target := a[0].(IfaceV), a[1].(IfaceV)
	if err.t == nil || target.t == nil {
		return e.ts.Bool(err.t == nil && target.t == nil)
	}
	errT := fn.Signature.Params().At(0).Type()
	for depth := 0; depth < 16 && err.t != nil; depth++ {
		if types.Comparable(target.t) && types.Identical(err.t, target.t) {
			c := e.equal(errT, err, target)
			if c.IsTrue() || (!c.IsFalse() && e.decide(c)) {
				return e.ts.True
			}
		}
		if f := e.ifaceMethod(err, "Is"); f != nil && f.Signature.Params().Len() == 1 && f.Signature.Results().Len() == 1 {
			r := e.call(fr, pos, f, []Value{err.v, target})
			if t, ok := r.(*Term); ok && (t.IsTrue() || (!t.IsFalse() && e.decide(t))) {
				return e.ts.True
			}
		}
		next := e.errUnwrap(fr, pos, err)
		iv, _ := next.(IfaceV)
		err = iv
	}
	return e.ts.False
}

func init() {
	externals["errors.As"] = extErrorsAs
}

// extErrorsAs: errors.As(err, target) with target a non-nil pointer to an interface or to a
// concrete error type; walks the Unwrap chain, honours an As(any) bool method.
func extErrorsAs(e *Exec, fr *frame, pos token.Pos, fn *ssa.Function, a []Value) Value {
	err, tgt := a[0].(IfaceV), a[1].(IfaceV)
	if tgt.t == nil {
		panic(targetPanic{msg: "errors: target cannot be nil", pos: e.posStr(pos)})
	}
	pt, ok := tgt.t.Underlying().(*types.Pointer)
	p, isPtr := tgt.v.(PtrV)
	if !ok || !isPtr || p.isNil() {
		panic(targetPanic{msg: "errors: target must be a non-nil pointer", pos: e.posStr(pos)})
	}
	want := pt.Elem()
	wantIface, _ := want.Underlying().(*types.Interface)
	for depth := 0; depth < 16 && err.t != nil; depth++ {
		match := false
		if wantIface != nil {
			match = types.Implements(err.t, wantIface)
		} else {
			match = types.Identical(err.t, want)
		}
		if match {
			if wantIface != nil {
				e.store(fr, nil, want, p, err)
			} else {
				e.store(fr, nil, want, p, err.v)
			}
			return e.ts.True
		}
		if f := e.ifaceMethod(err, "As"); f != nil && f.Signature.Params().Len() == 1 && f.Signature.Results().Len() == 1 {
			r := e.call(fr, pos, f, []Value{err.v, tgt})
			if t, ok := r.(*Term); ok && (t.IsTrue() || (!t.IsFalse() && e.decide(t))) {
				return e.ts.True
			}
		}
		next, _ := e.errUnwrap(fr, pos, err).(IfaceV)
		err = next
	}
	return e.ts.False
}
