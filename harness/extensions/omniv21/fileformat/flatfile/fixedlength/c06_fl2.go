package fixedlength

import (
	"unicode/utf8"
	"bufio"
	"io"

	"github.com/jf-tech/omniparser/extensions/omniv21/fileformat/flatfile"
	"github.com/jf-tech/omniparser/idr"
	zz "github.com/jf-tech/omniparser/zzverif"
)

// zzRunes builds a valid UTF-8 line of nr runes; each rune is 1, 2 or 3 bytes long (class
// chosen by a fork) with symbolic content inside the valid ranges. Returns the bytes and
// the byte offset of every rune boundary.
func zzRunes(nr int) ([]byte, []int) {
	var line []byte
	bounds := []int{0}
	for k := 0; k < nr; k++ {
		switch zz.NondetChoice("runeclass", 3) {
		case 0:
			b := zz.NondetByte("r1")
			zz.Assume(zz.ByteRange(b, 0x20, 0x7E))
			line = append(line, b)
		case 1:
			b0, b1 := zz.NondetByte("r2a"), zz.NondetByte("r2b")
			zz.Assume(zz.ByteRange(b0, 0xC2, 0xDF))
			zz.Assume(zz.ByteRange(b1, 0x80, 0xBF))
			line = append(line, b0, b1)
		default:
			b0, b1, b2 := zz.NondetByte("r3a"), zz.NondetByte("r3b"), zz.NondetByte("r3c")
			zz.Assume(zz.ByteRange(b0, 0xE1, 0xEC))
			zz.Assume(zz.ByteRange(b1, 0x80, 0xBF))
			zz.Assume(zz.ByteRange(b2, 0x80, 0xBF))
			line = append(line, b0, b1, b2)
		}
		bounds = append(bounds, len(line))
	}
	return line, bounds
}

// C06FixedSlice: the column value is the rune-counted slice [start_pos, start_pos+length).
func C06FixedSlice() {
	NR := zz.Param("NR", 3)
	nr := zz.NondetChoice("nrunes", NR+1)
	line, bounds := zzRunes(nr)
	start := zz.NondetInt("start_pos", 1, NR+2) // JSON schema: start_pos >= 1
	length := zz.NondetInt("length", 1, NR+2)   // JSON schema: length >= 1
	c := &ColumnDecl{Name: "c", StartPos: start, Length: length}
	got := c.lineToColumnValue(line)
	// reference: runes [start-1, start-1+length) clipped to the line
	lo := start - 1
	if lo > nr {
		lo = nr
	}
	hi := lo + length
	if hi > nr {
		hi = nr
	}
	want := string(line[bounds[lo]:bounds[hi]])
	zz.Observe("slice", got)
	zz.Assert(got == want, "column value is the rune-counted slice of the line")
	zz.Cover("sliced")
}

// C03FixedSliceBytes: column extraction on arbitrary bytes (invalid UTF-8 included: Latin-1
// text, truncated sequences, binary junk) never panics, returns a sub-slice of the line, and
// for every position counts an undecodable byte as one rune, as utf8.DecodeRune does.
func C03FixedSliceBytes() {
	L := zz.Param("L", 4)
	line := zz.NondetBytes("line", L)
	start := zz.NondetInt("start_pos", 1, L+3)
	length := zz.NondetInt("length", 1, L+3)
	c := &ColumnDecl{Name: "c", StartPos: start, Length: length}
	got := c.lineToColumnValue(line)
	zz.Assert(len(got) <= len(line), "the value is a part of the line")
	// reference: walk runes with the standard decoder
	pos, runes := 0, 0
	lo, hi := len(line), len(line)
	for pos < len(line) {
		if runes == start-1 {
			lo = pos
		}
		if runes == start-1+length {
			hi = pos
			break
		}
		_, sz := utf8.DecodeRune(line[pos:])
		pos += sz
		runes++
	}
	if lo > hi {
		lo = hi
	}
	zz.Assert(got == string(line[lo:hi]), "rune-counted slice, an undecodable byte counting as one rune")
	zz.Cover("sliced")
}

// ---- multi-line envelopes: values come from the right line, whatever the buffer does ----

type zzFlLines struct {
	input []byte
	lines [][]byte // ghost copies of the non-empty lines, in order
}

// zzMakeLines: 1..NL lines; each line is short (1 byte) or long (LL bytes) with symbolic
// content (printable ASCII), separated by LF / CRLF / LF+blank line; the last line may
// lack its newline.
func zzMakeLines(NL, LL int) *zzFlLines {
	f := &zzFlLines{}
	n := 1 + zz.NondetChoice("nlines", NL)
	for i := 0; i < n; i++ {
		ln := 1
		if zz.NondetBool("longline") {
			ln = LL
		}
		b := zz.NondetBytesN("line", ln)
		for _, x := range b {
			zz.Assume(zz.ByteRange(x, 0x20, 0x7E)) // printable ASCII; rune slicing is C06FixedSlice's subject
		}
		f.lines = append(f.lines, b)
		f.input = append(f.input, b...)
		switch zz.NondetChoice("eol", 3) {
		case 0:
			f.input = append(f.input, '\n')
		case 1:
			f.input = append(f.input, '\r', '\n')
		default:
			if i < n-1 {
				f.input = append(f.input, '\n', '\n') // an empty line in between
			} // else: no newline at the very end
		}
	}
	return f
}

func zzColText(n *idr.Node, k int) (string, bool) {
	c := n.FirstChild
	for i := 0; i < k && c != nil; i++ {
		c = c.NextSibling
	}
	if c == nil || c.FirstChild == nil {
		return "", false
	}
	return c.FirstChild.Data, true
}

// C06Fl2Lines: rows-based envelopes over a tiny (16-byte) bufio buffer and an arbitrary
// chunk schedule: every column holds the text of the line its line_index names.
func C06Fl2Lines() {
	NL := zz.Param("NL", 4)
	LL := zz.Param("LL", 6)
	f := zzMakeLines(NL, LL)
	rows := 1 + zz.NondetChoice("rows", 3)
	var cols []*ColumnDecl
	for k := 0; k < rows; k++ {
		cols = append(cols, &ColumnDecl{Name: "c", StartPos: 1, Length: LL, LineIndex: zzIntPtr(k + 1)})
	}
	env := &EnvelopeDecl{Name: "e", Rows: zzIntPtr(rows), IsTarget: true, Columns: cols}
	decl := &FileDecl{Envelopes: []*EnvelopeDecl{env}}
	zz.Assume((&validateCtx{}).validateFileDecl(decl) == nil)
	if zz.Param("FREEZE", 0) == 1 {
		zz.Freeze(decl)
	}
	src := &zzChunkReader{data: f.input, failAt: -1, cuts: zzCuts(zz.Param("CUTS", 1), len(f.input))}
	r := &reader{inputName: "t", r: bufio.NewReaderSize(src, 16)}
	r.hr = flatfile.NewHierarchyReader(toFlatFileRecDecls(decl.Envelopes), r, nil)

	rec := 0
	for i := 0; i < NL+2; i++ {
		n, err := r.Read()
		if err != nil {
			if err == io.EOF {
				zz.Cover("eof")
				zz.Assert(rec*rows == len(f.lines), "EOF only when every line went into a record")
			} else {
				zz.Cover("leftover")
				zz.Assert(IsErrInvalidFixedLength(err) && !r.IsContinuableError(err), "leftover lines are a fatal error")
				zz.Assert(len(f.lines)-rec*rows > 0 && len(f.lines)-rec*rows < rows, "error only when fewer than 'rows' lines remain")
			}
			return
		}
		zz.Cover("record")
		zz.Assert((rec+1)*rows <= len(f.lines), "a record needs 'rows' lines")
		for k := 0; k < rows; k++ {
			got, ok := zzColText(n, k)
			zz.Assert(ok, "one column node per declared column")
			if (rec+1)*rows <= len(f.lines) {
				zz.Assert(got == string(f.lines[rec*rows+k]), "column holds the text of the line chosen by line_index")
			}
		}
		rec++
		r.Release(n)
	}
	zz.Fail("no terminal result within the read bound")
}

// C16Fl2: a failing source ends the fixedlength2 reader with a fatal non-EOF error.
func C16Fl2() {
	NL := zz.Param("NL", 3)
	f := zzMakeLines(NL, zz.Param("LL", 3))
	rows := 1 + zz.NondetChoice("rows", 2)
	var cols []*ColumnDecl
	for k := 0; k < rows; k++ {
		cols = append(cols, &ColumnDecl{Name: "c", StartPos: 1, Length: 2, LineIndex: zzIntPtr(k + 1)})
	}
	decl := &FileDecl{Envelopes: []*EnvelopeDecl{{Name: "e", Rows: zzIntPtr(rows), IsTarget: true, Columns: cols}}}
	zz.Assume((&validateCtx{}).validateFileDecl(decl) == nil)
	// fault-free twin
	ra := NewReader("t", &zzChunkReader{data: f.input, failAt: -1}, decl, nil)
	var want []string
	for i := 0; i < NL+2; i++ {
		n, err := ra.Read()
		if err != nil {
			break
		}
		t, _ := zzColText(n, 0)
		want = append(want, t)
		ra.Release(n)
	}
	failAt := zz.NondetChoice("failAt", len(f.input)+1)
	rb := NewReader("t", &zzChunkReader{data: f.input, failAt: failAt, ioErr: zzPickIOErr()}, decl, nil)
	got := 0
	pending := ""
	havePending := false
	for i := 0; i < NL+3; i++ {
		n, err := rb.Read()
		if err == nil {
			// every result before the fatal one, except possibly the last, equals the fault-free run
			if havePending {
				zz.Assert(got-1 < len(want) && pending == want[got-1], "results before the fault (except possibly the last) equal the fault-free run")
			}
			pending, _ = zzColText(n, 0)
			havePending = true
			got++
			rb.Release(n)
			continue
		}
		zz.Assert(err != io.EOF, "a failing source never ends in a clean EOF")
		zz.Assert(!rb.IsContinuableError(err), "a source failure is fatal, not a per-record failure")
		zz.Cover("fatal")
		return
	}
	zz.Fail("no fatal error within the read bound")
}

// C05Fl2Units: fixedlength2 counterpart of C05Csv2Units: three envelope declarations — A
// needs look-ahead (rows R, or header ^H / footer ^F), B is one line matched by header ^B, C
// is a plain one-line envelope; lines that fail A's look-ahead are handed on in order.
func C05Fl2Units() {
	NL := zz.Param("NL", 3)
	f := zzMakeLines(NL, 1)
	var a, d *EnvelopeDecl
	hf := zz.NondetBool("headerFooter")
	col := func() []*ColumnDecl { return []*ColumnDecl{{Name: "c", StartPos: 1, Length: 1, LineIndex: zzIntPtr(1)}} }
	if hf {
		a = &EnvelopeDecl{Name: "A", Header: zzStrPtr("^H"), Footer: zzStrPtr("^F"), Min: zzIntPtr(0), Columns: col()}
		if zz.NondetBool("secondHeaderFooter") {
			// a second envelope with the same header and another footer: it sees the lines A's
			// footer search has buffered
			d = &EnvelopeDecl{Name: "D", Header: zzStrPtr("^H"), Footer: zzStrPtr("^G"), Min: zzIntPtr(0), Columns: col()}
		}
	} else {
		R := 2 + zz.NondetChoice("R", 2)
		a = &EnvelopeDecl{Name: "A", Rows: zzIntPtr(R), Min: zzIntPtr(0), Max: zzIntPtr(1), Columns: col()}
	}
	b := &EnvelopeDecl{Name: "B", Header: zzStrPtr("^B"), Min: zzIntPtr(0), Columns: []*ColumnDecl{{Name: "c", StartPos: 1, Length: 1}}}
	c := &EnvelopeDecl{Name: "C", Min: zzIntPtr(0), Columns: []*ColumnDecl{{Name: "c", StartPos: 1, Length: 1}}}
	envs := []*EnvelopeDecl{a}
	if d != nil {
		envs = append(envs, d)
	}
	envs = append(envs, b, c)
	tgt := zz.NondetChoice("target", len(envs))
	for i, e := range envs {
		e.IsTarget = i == tgt
	}
	decl := &FileDecl{Envelopes: envs}
	zz.Assume((&validateCtx{}).validateFileDecl(decl) == nil)
	r := NewReader("t", &zzChunkReader{data: f.input, failAt: -1}, decl, nil)

	pos := 0
	var want []string
	starts := func(i int, ch byte) bool { return f.lines[i][0] == ch }
	// header/footer envelopes: from a line starting with H up to the next line starting with
	// the footer letter; without such a line the envelope does not match (min 0) and the lines
	// are handed on
	hfEnvelopes := func(e *EnvelopeDecl, footer byte) {
		for pos < len(f.lines) && starts(pos, 'H') {
			end := -1
			for k := pos; k < len(f.lines); k++ {
				if starts(k, footer) {
					end = k
					break
				}
			}
			if end < 0 {
				break
			}
			if e.IsTarget {
				want = append(want, string(f.lines[pos]))
			}
			pos = end + 1
		}
	}
	if hf {
		hfEnvelopes(a, 'F')
		if d != nil {
			hfEnvelopes(d, 'G')
		}
	} else {
		R := *a.Rows
		if pos+R <= len(f.lines) {
			if a.IsTarget {
				want = append(want, string(f.lines[pos]))
			}
			pos += R
		}
	}
	for pos < len(f.lines) && starts(pos, 'B') {
		if b.IsTarget {
			want = append(want, string(f.lines[pos]))
		}
		pos++
	}
	for pos < len(f.lines) {
		if c.IsTarget {
			want = append(want, string(f.lines[pos]))
		}
		pos++
	}
	got := 0
	for i := 0; i < NL+2; i++ {
		n, err := r.Read()
		if err != nil {
			zz.Cover("terminal")
			zz.Assert(err == io.EOF, "every line fits a declaration here: the stream ends with EOF")
			zz.Assert(got == len(want), "every target of the reference was delivered")
			return
		}
		zz.Cover("record")
		text, ok := zzColText(n, 0)
		zz.Assert(got < len(want) && ok && text == want[got], "targets in input order with the right line's text")
		got++
		r.Release(n)
	}
	zz.Fail("no terminal result within the read bound")
}
