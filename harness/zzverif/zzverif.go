// Package zzverif is the harness API of the solver-based checks in /verif. It is overlaid
// into the module as github.com/jf-tech/omniparser/zzverif (nothing is written to /repo).
// In the symbolic engine every function below is intercepted by name; the bodies here are
// the native (replay) semantics: Nondet* read a recorded vector, Assert/Assume/Observe log.
package zzverif

import (
	"encoding/json"
	"fmt"
	"os"
	"reflect"
	"strconv"
	"runtime"
	"strings"
	"sync"
	"sync/atomic"
	"time"
)

var (
	vec     map[string]int64
	cnt     = map[string]int{}
	loaded  bool
	Trace   []string
	Covered []string
	known   = map[string]bool{}
	params  = map[string]int64{}
)

type assumeFailed struct{}
type assertFailed struct{ label string }

func load() {
	if loaded {
		return
	}
	loaded = true
	vec = map[string]int64{}
	if p := os.Getenv("ZZVERIF_VECTOR"); p != "" {
		data, err := os.ReadFile(p)
		if err == nil {
			var in struct {
				Vector map[string]int64 `json:"vector"`
				Known  []string         `json:"known"`
				Params map[string]int64 `json:"params"`
			}
			if json.Unmarshal(data, &in) == nil {
				if in.Vector != nil {
					vec = in.Vector
				}
				for _, k := range in.Known {
					known[k] = true
				}
				for k, v := range in.Params {
					params[k] = v
				}
			}
		}
	}
}

func fresh(name string) string {
	k := cnt[name]
	cnt[name] = k + 1
	return name + "#" + strconv.Itoa(k)
}

func NondetInt(name string, lo, hi int) int {
	load()
	n := fresh(name)
	v, ok := vec[n]
	if !ok {
		return lo
	}
	if int(v) < lo || int(v) > hi {
		panic(assumeFailed{})
	}
	return int(v)
}

func NondetBool(name string) bool {
	load()
	return vec[fresh(name)] != 0
}

func NondetByte(name string) byte {
	load()
	return byte(vec[fresh(name)])
}

func bytesOf(n string, ln int) []byte {
	b := make([]byte, ln)
	for i := range b {
		b[i] = byte(vec[n+"["+strconv.Itoa(i)+"]"])
	}
	return b
}

// NondetBytes returns a byte slice of any length 0..maxLen with arbitrary content.
func NondetBytes(name string, maxLen int) []byte {
	load()
	n := fresh(name)
	ln := int(vec[n+".len"])
	if ln > maxLen {
		panic(assumeFailed{})
	}
	return bytesOf(n, ln)
}

// NondetBytesN returns a byte slice of exactly n arbitrary bytes.
func NondetBytesN(name string, n int) []byte {
	load()
	return bytesOf(fresh(name), n)
}

func NondetString(name string, maxLen int) string {
	load()
	n := fresh(name)
	ln := int(vec[n+".len"])
	if ln > maxLen {
		panic(assumeFailed{})
	}
	return string(bytesOf(n, ln))
}

// NondetChoice forks n ways (configuration rather than data).
func NondetChoice(name string, n int) int {
	load()
	v := int(vec[fresh(name)])
	if v < 0 || v >= n {
		panic(assumeFailed{})
	}
	return v
}

func Assume(c bool) {
	if !c {
		panic(assumeFailed{})
	}
}

func Assert(c bool, label string) {
	if !c {
		panic(assertFailed{label})
	}
}

func Fail(label string) { panic(assertFailed{label}) }

func Cover(label string) { Covered = append(Covered, label) }

func Observe(label string, v ...interface{}) {
	var sb strings.Builder
	sb.WriteString(label + ":")
	for _, x := range v {
		switch y := x.(type) {
		case string:
			sb.WriteString(" " + strconv.Quote(y))
		case []byte:
			sb.WriteString(" " + strconv.Quote(string(y)))
		case nil:
			sb.WriteString(" <nil>")
		default:
			sb.WriteString(" " + fmt.Sprint(y))
		}
	}
	Trace = append(Trace, sb.String())
}

func Symbolic() bool { return false }

// PickIndex is the native side of the per-package zzNondetPick* helpers: the engine
// intercepts any function whose name starts with zzNondetPick (signature
// (name string, cands []T) T) and returns a symbolic selection among the candidates
// (pointers become guarded target sets, scalars ite terms). Natively such a helper is
// written as: return cands[zz.PickIndex(name, len(cands))].
func PickIndex(name string, n int) int {
	load()
	v := int(vec[fresh(name)])
	if v < 0 || v >= n {
		panic(assumeFailed{})
	}
	return v
}

// IteInt is a branch-free conditional (an SMT ite in the engine).
func IteInt(c bool, a, b int) int {
	if c {
		return a
	}
	return b
}

// ByteIn reports whether b is one of the bytes of set (branch-free: one disjunction).
func ByteIn(b byte, set string) bool {
	for i := 0; i < len(set); i++ {
		if set[i] == b {
			return true
		}
	}
	return false
}

// ByteRange reports lo <= b <= hi (branch-free).
func ByteRange(b, lo, hi byte) bool { return b >= lo && b <= hi }

// Implies is a branch-free implication.
func Implies(a, b bool) bool { return !a || b }

func KnownFinding(id string) bool { load(); return known[id] }

func Param(name string, def int) int {
	load()
	if v, ok := params[name]; ok {
		return int(v)
	}
	return def
}

// HangIsViolation declares that every loop reached from here on must stay within the
// engine's unwinding bound: exceeding it is reported as a violation (non-termination)
// instead of an inconclusive run. Natively a watchdog turns a hang into "timeout".
func HangIsViolation() {}

// Par runs the closures as concurrent threads. Natively: real goroutines, joined; a panic in
// one of them is re-raised in the caller. Symbolically: the engine's bounded thread model
// (engine/par.go). Nondet* must not be called inside the closures.
func Par(fns ...func()) {
	var wg sync.WaitGroup
	panics := make([]interface{}, len(fns))
	var arrived int32
	for i, f := range fns {
		wg.Add(1)
		go func(i int, f func()) {
			defer wg.Done()
			defer func() { panics[i] = recover() }()
			// start barrier: the threads begin together so that their operations overlap
			atomic.AddInt32(&arrived, 1)
			for spin := 0; atomic.LoadInt32(&arrived) < int32(len(fns)) && spin < 1000000; spin++ {
				runtime.Gosched()
			}
			f()
		}(i, f)
	}
	wg.Wait()
	for _, p := range panics {
		if p != nil {
			panic(p)
		}
	}
}

// SetGlobalInt sets an integer package variable of the program under analysis by name
// (engine only; natively a no-op — the harness reaches the same state some other way).
func SetGlobalInt(name string, v int) {}

// Stress is the number of repetitions a concurrent harness runs natively so that a schedule
// found by the engine has a chance to occur; symbolically it is 1.
func Stress(n int) int { return n }

// raceLogSize: under -race with GORACE=log_path=$ZZVERIF_RACELOG the runtime appends its
// reports to <path>.<pid>; growth during a vector means the race detector fired.
func raceLogSize() int64 {
	p := os.Getenv("ZZVERIF_RACELOG")
	if p == "" {
		return 0
	}
	st, err := os.Stat(fmt.Sprintf("%s.%d", p, os.Getpid()))
	if err != nil {
		return 0
	}
	return st.Size()
}

func MapOrder(mode int) {}
func PoolMode(mode int) {}

// Freeze marks everything reachable from root as shared/immutable. Engine: any store or map
// update into it is reported. Natively: a fingerprint of the object graph is taken now and
// compared when the harness ends, so a write that changes anything is seen as a failure.
func Freeze(root interface{}) {
	frozenRoots = append(frozenRoots, root)
	frozenPrints = append(frozenPrints, fingerprint(root))
}

var (
	frozenRoots  []interface{}
	frozenPrints []string
)

const frozenLabel = "write to an object reachable from the shared schema (data race between goroutines sharing the Schema)"

func fingerprint(root interface{}) string {
	var sb strings.Builder
	seen := map[uintptr]int{}
	var walk func(v reflect.Value, depth int)
	walk = func(v reflect.Value, depth int) {
		if depth > 64 {
			sb.WriteString("…")
			return
		}
		switch v.Kind() {
		case reflect.Invalid:
			sb.WriteString("nil")
		case reflect.Bool:
			fmt.Fprintf(&sb, "%v", v.Bool())
		case reflect.Int, reflect.Int8, reflect.Int16, reflect.Int32, reflect.Int64:
			fmt.Fprintf(&sb, "%d", v.Int())
		case reflect.Uint, reflect.Uint8, reflect.Uint16, reflect.Uint32, reflect.Uint64, reflect.Uintptr:
			fmt.Fprintf(&sb, "%d", v.Uint())
		case reflect.Float32, reflect.Float64:
			fmt.Fprintf(&sb, "%v", v.Float())
		case reflect.String:
			sb.WriteString(strconv.Quote(v.String()))
		case reflect.Ptr:
			if v.IsNil() {
				sb.WriteString("nil")
				return
			}
			p := v.Pointer()
			if id, ok := seen[p]; ok {
				fmt.Fprintf(&sb, "^%d", id)
				return
			}
			seen[p] = len(seen)
			sb.WriteString("&")
			walk(v.Elem(), depth+1)
		case reflect.Interface:
			if v.IsNil() {
				sb.WriteString("nil")
				return
			}
			sb.WriteString(v.Elem().Type().String() + ":")
			walk(v.Elem(), depth+1)
		case reflect.Struct:
			if strings.HasPrefix(v.Type().PkgPath(), "regexp") || strings.HasPrefix(v.Type().PkgPath(), "sync") || strings.Contains(v.Type().PkgPath(), "xpath") {
				sb.WriteString("<" + v.Type().String() + ">") // library internals (own synchronisation / lazily built)
				return
			}
			sb.WriteString("{")
			for i := 0; i < v.NumField(); i++ {
				sb.WriteString(v.Type().Field(i).Name + ":")
				walk(v.Field(i), depth+1)
				sb.WriteString(",")
			}
			sb.WriteString("}")
		case reflect.Slice, reflect.Array:
			if v.Kind() == reflect.Slice && v.IsNil() {
				sb.WriteString("nil")
				return
			}
			sb.WriteString("[")
			for i := 0; i < v.Len(); i++ {
				walk(v.Index(i), depth+1)
				sb.WriteString(",")
			}
			sb.WriteString("]")
		case reflect.Map:
			if v.IsNil() {
				sb.WriteString("nil")
				return
			}
			keys := v.MapKeys()
			ks := make([]string, len(keys))
			for i, k := range keys {
				ks[i] = fmt.Sprint(k)
			}
			order := make([]int, len(keys))
			for i := range order {
				order[i] = i
			}
			for i := 1; i < len(order); i++ {
				for j := i; j > 0 && ks[order[j]] < ks[order[j-1]]; j-- {
					order[j], order[j-1] = order[j-1], order[j]
				}
			}
			sb.WriteString("map[")
			for _, i := range order {
				sb.WriteString(ks[i] + ":")
				walk(v.MapIndex(keys[i]), depth+1)
				sb.WriteString(",")
			}
			sb.WriteString("]")
		case reflect.Func:
			if v.IsNil() {
				sb.WriteString("nil")
			} else {
				sb.WriteString("func")
			}
		default:
			sb.WriteString("?" + v.Kind().String())
		}
	}
	walk(reflect.ValueOf(root), 0)
	return sb.String()
}

// NativeRun executes a harness natively on the recorded vector and prints its outcome.
// A watchdog (10 s) reports a harness that does not return as "timeout".
func NativeRun(name string, fn func()) (result string) {
	load()
	raceBefore := raceLogSize()
	done := make(chan string, 1)
	go func() {
		res := "completed"
		defer func() {
			if r := recover(); r != nil {
				switch x := r.(type) {
				case assumeFailed:
					res = "assume-failed"
				case assertFailed:
					res = "assert-fail:" + x.label
				default:
					res = "panic:" + fmt.Sprint(r)
				}
			}
			done <- res
		}()
		fn()
	}()
	select {
	case result = <-done:
		if result == "completed" && raceLogSize() > raceBefore {
			result = "assert-fail:data race reported by the Go race detector"
		}
		if result == "completed" {
			for i, r := range frozenRoots {
				if fingerprint(r) != frozenPrints[i] {
					result = "assert-fail:" + frozenLabel
				}
			}
		}
	case <-time.After(10 * time.Second):
		result = "timeout"
		fmt.Println("ZZ-RESULT: " + result)
		return result
	}
	for _, t := range Trace {
		fmt.Println("ZZ-OBSERVE: " + t)
	}
	for _, c := range Covered {
		fmt.Println("ZZ-COVER: " + c)
	}
	fmt.Println("ZZ-RESULT: " + result)
	return result
}

// KnownRegion carves a recorded known finding out of a harness: when the finding id is
// listed as known the region pred is excluded (so any other violation is still reported);
// when the driver probes the finding (param probe_<id>=1) only the region is explored.
func KnownRegion(id string, pred bool) {
	if KnownFinding(id) {
		Assume(!pred)
	} else if Param("probe_"+id, 0) == 1 {
		Assume(pred)
	}
}

type replayItem struct {
	Harness string           `json:"harness"`
	Vector  map[string]int64 `json:"vector"`
	Known   []string         `json:"known"`
	Params  map[string]int64 `json:"params"`
}

// NativeRunAll replays every recorded vector in $ZZVERIF_VECTORS against the real build.
func NativeRunAll(harnesses map[string]func()) {
	data, err := os.ReadFile(os.Getenv("ZZVERIF_VECTORS"))
	if err != nil {
		fmt.Println("ZZ-ERROR: " + err.Error())
		return
	}
	var items []replayItem
	if err := json.Unmarshal(data, &items); err != nil {
		fmt.Println("ZZ-ERROR: " + err.Error())
		return
	}
	for i, it := range items {
		loaded = true
		vec = it.Vector
		if vec == nil {
			vec = map[string]int64{}
		}
		cnt = map[string]int{}
		Trace, Covered = nil, nil
		frozenRoots, frozenPrints = nil, nil
		known = map[string]bool{}
		for _, k := range it.Known {
			known[k] = true
		}
		params = map[string]int64{}
		for k, v := range it.Params {
			params[k] = v
		}
		fmt.Printf("ZZ-BEGIN: %d\n", i)
		fn := harnesses[it.Harness]
		if fn == nil {
			fmt.Println("ZZ-RESULT: no-such-harness")
			continue
		}
		NativeRun(it.Harness, fn)
	}
}
