package main

// The rest of sync/atomic (the functions have no Go bodies): stores, swaps, compare-and-swap,
// pointer variants and atomic.Value. Each is one atomic step: under zz.Par a scheduling point
// with acquire/release on the address (parAtomic), otherwise plain.

import (
	"go/token"

	"golang.org/x/tools/go/ssa"
)

func init() {
	store := func(e *Exec, fr *frame, pos token.Pos, fn *ssa.Function, a []Value) Value {
		return e.parAtomic(a[0], func() Value {
			e.store(fr, nil, fn.Signature.Params().At(1).Type(), a[0].(PtrV), a[1])
			return nil
		})
	}
	load := func(e *Exec, fr *frame, pos token.Pos, fn *ssa.Function, a []Value) Value {
		return e.parAtomic(a[0], func() Value { return e.load(fr, nil, a[0].(PtrV)) })
	}
	swap := func(e *Exec, fr *frame, pos token.Pos, fn *ssa.Function, a []Value) Value {
		return e.parAtomic(a[0], func() Value {
			old := e.load(fr, nil, a[0].(PtrV))
			e.store(fr, nil, fn.Signature.Params().At(1).Type(), a[0].(PtrV), a[1])
			return old
		})
	}
	cas := func(e *Exec, fr *frame, pos token.Pos, fn *ssa.Function, a []Value) Value {
		return e.parAtomic(a[0], func() Value {
			T := fn.Signature.Params().At(1).Type()
			cur := e.load(fr, nil, a[0].(PtrV))
			eq := e.equal(T, cur, a[1])
			if eq.IsTrue() || (!eq.IsFalse() && e.decide(eq)) {
				e.store(fr, nil, T, a[0].(PtrV), a[2])
				return e.ts.True
			}
			return e.ts.False
		})
	}
	for _, t := range []string{"Int32", "Int64", "Uint32", "Uint64", "Uintptr", "Pointer"} {
		if _, ok := externals["sync/atomic.Load"+t]; !ok {
			externals["sync/atomic.Load"+t] = load
		}
		if _, ok := externals["sync/atomic.Store"+t]; !ok {
			externals["sync/atomic.Store"+t] = store
		}
		externals["sync/atomic.Swap"+t] = swap
		externals["sync/atomic.CompareAndSwap"+t] = cas
	}
	// atomic.Value: the cell holds the interface value itself
	externals["(*sync/atomic.Value).Store"] = func(e *Exec, fr *frame, pos token.Pos, fn *ssa.Function, a []Value) Value {
		return e.parAtomic(a[0], func() Value {
			if iv, ok := a[1].(IfaceV); ok && iv.t == nil {
				panic(targetPanic{msg: "sync/atomic: store of nil value into Value", pos: e.posStr(pos)})
			}
			p, _ := a[0].(PtrV).single()
			sv := (*p).(StructV)
			sv[0] = a[1]
			return nil
		})
	}
	externals["(*sync/atomic.Value).Load"] = func(e *Exec, fr *frame, pos token.Pos, fn *ssa.Function, a []Value) Value {
		return e.parAtomic(a[0], func() Value {
			p, _ := a[0].(PtrV).single()
			if iv, ok := (*p).(StructV)[0].(IfaceV); ok {
				return iv
			}
			return IfaceV{}
		})
	}
}
