#!/bin/bash
# Runs every property's thorough tier from the directory this script lives in (used with
# `vp run` on a snapshot so that /verif's committed quick evidence is not disturbed).
here=$(cd "$(dirname "$0")" && pwd)
export GOFLAGS=-mod=mod GOPROXY=off GOSUMDB=off GOTOOLCHAIN=local GOSMT_VERIF_DIR=$here
cd $here/engine && go build -o ../bin/gosmt . || exit 2
cd $here
for p in ${@:-C01 C02 C03 C04 C05 C06 C07 C08 C09 C10 C11 C12 C13 C14 C15 C16 C17 C18 C19 C20}; do
  s=$(date +%s)
  ./bin/gosmt check $p --tier thorough --evidence-dir $here/evidence_thorough --harness-root $here/harness > $here/thorough_$p.log 2>&1
  echo "$p exit=$? secs=$(( $(date +%s) - s )) $(grep -E '^OK|^VIOLATION|^INCONCLUSIVE|^KNOWN' $here/thorough_$p.log | head -3 | cut -c1-160 | tr '\n' ' ')"
done
