package omniv21

import (
	"errors"
	"io"

	zz "github.com/jf-tech/omniparser/zzverif"
)

// zzChunkReader delivers a fixed (symbolic) byte string under an arbitrary chunk schedule:
// every Read returns between 0 and len(p) of the remaining bytes, optionally together with
// io.EOF when the data ends; it can also start failing at a symbolic position.
type zzChunkReader struct {
	data    []byte
	pos     int
	chunked bool  // false: deliver as much as fits
	cuts    []int // if set: a Read never crosses the next cut position (a cheap schedule family)
	failAt  int   // -1: never; otherwise fail with ioErr once pos >= failAt
	ioErr   error
	reads   int
	zeros   int
	eofWithData bool // deliver the last bytes together with io.EOF (allowed by the io.Reader contract)
}

var zzIOErr = errors.New("disk on fire")

// zzWrapEOF: a source failure whose error chain contains io.EOF (what os/fs and many wrappers
// produce); it is a failure, not the end of the input.
type zzWrapEOF struct{}

func (zzWrapEOF) Error() string { return "read failed: EOF" }
func (zzWrapEOF) Unwrap() error { return io.EOF }

var zzIOErrs = []error{zzIOErr, io.ErrUnexpectedEOF, zzWrapEOF{}}

// zzPickIOErr: the kind of error a failing source returns: an opaque error, the sentinel
// io.ErrUnexpectedEOF (truncated gzip/flate streams, io.ReadFull), or an error wrapping io.EOF.
func zzPickIOErr() error { return zzIOErrs[zz.NondetChoice("ioErrKind", zz.Param("ERRKINDS", 3))] }

func (r *zzChunkReader) Read(p []byte) (int, error) {
	r.reads++
	if r.failAt >= 0 && r.pos >= r.failAt {
		return 0, r.ioErr
	}
	rem := len(r.data) - r.pos
	if r.failAt >= 0 && r.failAt-r.pos < rem {
		rem = r.failAt - r.pos
	}
	if rem == 0 {
		return 0, io.EOF
	}
	n := rem
	if len(p) < n {
		n = len(p)
	}
	for _, c := range r.cuts {
		if c > r.pos && c-r.pos < n {
			n = c - r.pos
		}
	}
	if r.chunked {
		lo := 1
		if r.zeros < 2 {
			lo = 0 // at most two empty reads per stream: (0, nil) forever is outside every contract
		}
		n = zz.NondetInt("chunk", lo, n)
		if n == 0 {
			r.zeros++
		}
	}
	copy(p, r.data[r.pos:r.pos+n])
	r.pos += n
	if r.eofWithData && r.pos == len(r.data) && r.failAt < 0 {
		return n, io.EOF
	}
	if r.chunked && r.pos == len(r.data) && (r.failAt < 0) && zz.NondetBool("dataWithEOF") {
		return n, io.EOF
	}
	return n, nil
}

func zzStrPtr(s string) *string { return &s }
func zzIntPtr(i int) *int       { return &i }

// zzCuts returns up to k cut positions in [1, n-1] (strictly increasing); the positions are
// concrete forks (the schedule is configuration, the data stays symbolic).
func zzCuts(k, n int) []int {
	var cuts []int
	prev := 0
	for i := 0; i < k; i++ {
		if n-1-prev < 1 || !zz.NondetBool("cut") {
			break
		}
		c := prev + 1 + zz.NondetChoice("cutpos", n-1-prev)
		cuts = append(cuts, c)
		prev = c
	}
	return cuts
}
