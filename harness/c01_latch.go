package omniparser

import (
	"errors"
	"io"

	"github.com/jf-tech/omniparser/errs"
	"github.com/jf-tech/omniparser/schemahandler"
	zz "github.com/jf-tech/omniparser/zzverif"
)

// ---- C01: Read/RawRecord latch, one inductive step from an arbitrary valid state ----

type zzRaw struct{ id int }

func (r *zzRaw) Raw() interface{} { return r.id }
func (r *zzRaw) Checksum() string { return "cs" }

var (
	zzFatalErr = errors.New("fatal-io")
	zzContErr  = errors.New("continuable")
	zzFatal2   = errors.New("fatal-2")
	// a fatal error whose chain contains a record failure ("giving up after: ..."): fatal all the same
	zzFatalWrap error = zzWrapErr{errs.ErrTransformFailed("tf")}
)

type zzWrapErr struct{ inner error }

func (w zzWrapErr) Error() string { return "giving up after: " + w.inner.Error() }
func (w zzWrapErr) Unwrap() error { return w.inner }

// zzIngester is a symbolic ingester: each Read returns an arbitrary result of one of the
// five classes; IsContinuableError answers by class.
type zzIngester struct {
	calls   int
	classes []int // class returned by the i-th call (ghost record)
	raws    []*zzRaw
}

func (g *zzIngester) Read() (schemahandler.RawRecord, []byte, error) {
	g.calls++
	class := zz.NondetInt("class", 0, 5)
	g.classes = append(g.classes, class)
	raw := &zzRaw{id: g.calls}
	g.raws = append(g.raws, raw)
	switch class {
	case 0:
		// handler contract: err == nil ⇒ bytes and raw record non-nil
		return raw, []byte{'{', '}'}, nil
	case 1:
		// handlers may or may not hand back stale values together with an error
		if zz.NondetBool("stale") {
			return raw, []byte{'x'}, io.EOF
		}
		return nil, nil, io.EOF
	case 2:
		if zz.NondetBool("stale") {
			return raw, []byte{'x'}, errs.ErrTransformFailed("tf")
		}
		return nil, nil, errs.ErrTransformFailed("tf")
	case 3:
		if zz.NondetBool("stale") {
			return raw, []byte{'x'}, zzContErr
		}
		return nil, nil, zzContErr
	case 5:
		return nil, nil, zzFatalWrap
	default:
		if zz.NondetBool("stale") {
			return raw, []byte{'x'}, zzFatalErr
		}
		return nil, nil, zzFatalErr
	}
}

// the handler's own classification: by identity, not through errs (the code under test)
func (g *zzIngester) IsContinuableError(err error) bool {
	return err == error(errs.ErrTransformFailed("tf")) || err == zzContErr
}

func (g *zzIngester) FmtErr(format string, args ...interface{}) error { return errors.New(format) }

func zzIsTerminal(err error) bool {
	_, isTF := err.(errs.ErrTransformFailed)
	return err != nil && !isTF
}

// C01LatchStep: arbitrary valid pre-state, one call (Read or RawRecord).
func C01LatchStep() {
	g := &zzIngester{}
	prevRaw := &zzRaw{id: -1}
	tr := &transform{ingester: g}
	// pre-state: what the previous Read left behind
	switch zz.NondetInt("pre", 0, 5) {
	case 0: // fresh, no Read yet
	case 1: // last Read succeeded
		tr.lastRawRecord = prevRaw
	case 2:
		tr.lastErr = io.EOF
	case 3:
		tr.lastErr = zzFatal2
	case 4:
		tr.lastErr = errs.ErrTransformFailed("earlier failure")
	case 5:
		tr.lastErr = errs.ErrTransformFailed("")
	}
	preErr := tr.lastErr
	preRaw := tr.lastRawRecord

	if zz.NondetBool("callRawRecord") {
		rr, err := tr.RawRecord()
		zz.Observe("rawrecord", rr == nil, err == nil)
		zz.Assert(g.calls == 0, "RawRecord must not touch the ingester")
		if preErr != nil {
			zz.Cover("rawrecord-after-error")
			zz.Assert(rr == nil && err == preErr, "RawRecord after failed Read returns that Read's error")
		} else if preRaw != nil {
			zz.Cover("rawrecord-after-success")
			zz.Assert(err == nil && rr == preRaw, "RawRecord after successful Read returns that record")
		} else {
			zz.Cover("rawrecord-before-read")
			zz.Assert(rr == nil && err != nil, "RawRecord before any Read is an error")
		}
		zz.Assert(tr.lastErr == preErr && tr.lastRawRecord == preRaw, "RawRecord leaves the state unchanged")
		return
	}

	b, err := tr.Read()
	zz.Observe("read", b == nil, err == nil, g.calls)
	// shape: exactly one of the three result shapes
	zz.Assert((b == nil) == (err != nil), "bytes nil iff err non-nil")
	if zzIsTerminal(preErr) {
		zz.Cover("read-after-terminal")
		zz.Assert(g.calls == 0, "terminal state: ingester not touched")
		zz.Assert(b == nil && err == preErr, "terminal error returned again unchanged")
		zz.Assert(tr.lastErr == preErr && tr.lastRawRecord == nil, "terminal state unchanged")
		return
	}
	zz.Assert(g.calls == 1, "non-terminal state: exactly one ingester read")
	switch g.classes[0] {
	case 0:
		zz.Cover("read-success")
		zz.Assert(err == nil && len(b) == 2, "success passes the record through")
		zz.Assert(tr.lastErr == nil && tr.lastRawRecord == schemahandler.RawRecord(g.raws[0]), "success: RawRecord is this record")
	case 1:
		zz.Cover("read-eof")
		zz.Assert(err == io.EOF, "EOF returned as io.EOF")
	case 2:
		zz.Cover("read-transform-failed")
		zz.Assert(err == errs.ErrTransformFailed("tf"), "ErrTransformFailed keeps its text")
	case 3:
		zz.Cover("read-continuable")
		zz.Assert(err == errs.ErrTransformFailed("continuable"), "continuable error is wrapped into ErrTransformFailed with its text")
	case 4:
		zz.Cover("read-fatal")
		zz.Assert(err == zzFatalErr, "fatal error returned identical")
	case 5:
		zz.Cover("read-fatal-wrapping")
		zz.Assert(err == zzFatalWrap, "a fatal error that wraps a record failure is returned identical")
		zz.Assert(!errs.IsErrTransformFailed(err), "and is not a record failure itself")
		_, err2 := tr.Read()
		zz.Assert(err2 == zzFatalWrap && g.calls == 1, "and is terminal: returned again without touching the ingester")
		return
	}
	// representation invariant re-established
	zz.Assert(tr.lastErr == err, "lastErr is the returned error")
	zz.Assert(err == nil || tr.lastRawRecord == nil, "invariant: lastErr != nil ⇒ lastRawRecord == nil")
	// and RawRecord now agrees with this Read
	rr, rerr := tr.RawRecord()
	if err == nil {
		zz.Assert(rerr == nil && rr == schemahandler.RawRecord(g.raws[0]), "RawRecord succeeds exactly when Read did")
	} else {
		zz.Assert(rr == nil && rerr == err, "RawRecord returns the failed Read's error")
	}
}

// C01LatchHist: K calls (Read / RawRecord in any interleaving) from the initial state against
// a reference automaton: cross-checks the inductive invariant of C01LatchStep on reachable
// states and covers histories with calls after a terminal result.
func C01LatchHist() {
	K := zz.Param("K", 4)
	g := &zzIngester{}
	tr := &transform{ingester: g}
	// reference state
	var refErr error         // last Read's error (nil if none yet or success)
	var refRaw *zzRaw        // last successful Read's raw record
	terminal := false        // refErr is terminal
	for i := 0; i < K; i++ {
		if zz.NondetBool("callRawRecord") {
			rr, err := tr.RawRecord()
			switch {
			case refErr != nil:
				zz.Assert(rr == nil && err == refErr, "RawRecord after a failed Read returns that Read's error")
			case refRaw != nil:
				zz.Assert(err == nil && rr == schemahandler.RawRecord(refRaw), "RawRecord after a successful Read returns that record")
			default:
				zz.Assert(rr == nil && err != nil, "RawRecord before any Read is an error")
			}
			continue
		}
		before := g.calls
		b, err := tr.Read()
		zz.Assert((b == nil) == (err != nil), "bytes nil iff err non-nil")
		if terminal {
			zz.Cover("after-terminal")
			zz.Assert(g.calls == before && err == refErr, "terminal result is returned again without touching the ingester")
			continue
		}
		zz.Assert(g.calls == before+1, "exactly one ingester read")
		refErr = err
		if err == nil {
			refRaw = g.raws[g.calls-1]
		} else {
			refRaw = nil
			terminal = zzIsTerminal(err)
			if terminal {
				zz.Cover("became-terminal")
				zz.Assert(err == io.EOF || err == zzFatalErr || err == zzFatalWrap, "terminal errors are EOF or the ingester's fatal error, unchanged")
			}
		}
	}
	zz.Cover("history")
}
