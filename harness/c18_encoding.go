package omniparser

import (
	"io"

	"github.com/jf-tech/omniparser/header"
	"github.com/jf-tech/omniparser/schemahandler"
	"github.com/jf-tech/omniparser/transformctx"
	zz "github.com/jf-tech/omniparser/zzverif"
)

// C18: what the format reader receives is stripLeadingBOM(decode(input)) for the declared
// encoding. The real reader stack of NewTransform runs: x/text charmap decoder +
// transform.Reader, ios.StripBOM over bufio.Reader.ReadRune.

// zzCP1252 maps bytes 0x80..0x9F of windows-1252 to code points (Unicode CP1252.TXT);
// 0 marks the five bytes the code page leaves undefined.
var zzCP1252 = [32]rune{
	0x20AC, 0, 0x201A, 0x0192, 0x201E, 0x2026, 0x2020, 0x2021, 0x02C6, 0x2030, 0x0160, 0x2039, 0x0152, 0, 0x017D, 0,
	0, 0x2018, 0x2019, 0x201C, 0x201D, 0x2022, 0x2013, 0x2014, 0x02DC, 0x2122, 0x0161, 0x203A, 0x0153, 0, 0x017E, 0x0178,
}

func zzUTF8(r rune) []byte {
	switch {
	case r < 0x80:
		return []byte{byte(r)}
	case r < 0x800:
		return []byte{0xC0 | byte(r>>6), 0x80 | byte(r)&0x3F}
	default:
		return []byte{0xE0 | byte(r>>12), 0x80 | byte(r>>6)&0x3F, 0x80 | byte(r)&0x3F}
	}
}

func C18Compose() {
	L := zz.Param("L", 2)
	encs := []string{"", "utf-8", "iso-8859-1", "windows-1252", "something-else"}
	ei := zz.NondetChoice("encoding", len(encs))
	var ps header.ParserSettings
	if ei > 0 {
		ps.Encoding = &encs[ei]
	}
	withBOM := zz.NondetBool("bom")
	body := zz.NondetBytes("in", L)
	var input []byte
	if withBOM {
		input = append(input, 0xEF, 0xBB, 0xBF)
	}
	input = append(input, body...)
	single := ei == 2 || ei == 3
	// reference: decode, then strip one leading U+FEFF
	var want []byte
	if single {
		for _, b := range input {
			switch {
			case b < 0x80:
				want = append(want, b)
			case ei == 3 && b < 0xA0:
				r := zzCP1252[b-0x80]
				zz.Assume(r != 0) // bytes undefined in windows-1252 are outside the claim
				want = append(want, zzUTF8(r)...)
			default:
				want = append(want, zzUTF8(rune(b))...)
			}
		}
	} else {
		// pass-through: the body must be valid UTF-8 for the comparison to be meaningful
		for _, b := range body {
			zz.Assume(b < 0x80)
		}
		want = append(want, input...)
	}
	if len(want) >= 3 && want[0] == 0xEF && want[1] == 0xBB && want[2] == 0xBF {
		want = want[3:]
	}
	// the real NewTransform builds the stack; a mock schema handler captures what the format
	// reader would be given
	h := &zzCaptureHandler{}
	sch := &schema{name: "s", header: header.Header{ParserSettings: ps}, handler: h}
	_, err := sch.NewTransform("in", &zzChunkReader{data: input, failAt: -1, cuts: zzCuts(1, len(input))}, &transformctx.Ctx{})
	zz.Assert(err == nil && h.input != nil, "reader stack builds")
	br := h.input
	var got []byte
	buf := make([]byte, 4)
	for i := 0; i < 4*(L+4); i++ {
		n, err := br.Read(buf)
		got = append(got, buf[:n]...)
		if err == io.EOF {
			break
		}
		zz.Assert(err == nil, "no read error")
	}
	zz.Observe("out", string(got))
	zz.Assert(len(got) == len(want), "format reader receives stripLeadingBOM(decode(input)) (length)")
	for i := range got {
		if i < len(want) {
			zz.Assert(got[i] == want[i], "format reader receives stripLeadingBOM(decode(input))")
		}
	}
	zz.Cover("composed")
}

type zzCaptureHandler struct{ input io.Reader }

func (h *zzCaptureHandler) NewIngester(ctx *transformctx.Ctx, input io.Reader) (schemahandler.Ingester, error) {
	h.input = input
	return &zzIngester{}, nil
}

// C18Wide: the same law across the internal buffer boundaries of the reader stack
// (transform.Reader's 4096-byte buffers, bufio's 4096-byte buffer): PAD ASCII bytes, with PAD a
// few bytes around 4096 and 8192, followed by a symbolic byte and an ASCII tail; single-byte
// encodings.
func C18Wide() {
	encs := []string{"iso-8859-1", "windows-1252"}
	ei := zz.NondetChoice("encoding", len(encs))
	ps := header.ParserSettings{Encoding: &encs[ei]}
	base := []int{4096, 8192}[zz.NondetChoice("boundary", zz.Param("BOUNDARIES", 1))]
	pad := base - 5 + zz.NondetChoice("pad", 8)
	hi := zz.NondetByte("b")
	input := make([]byte, 0, pad+3)
	for i := 0; i < pad; i++ {
		input = append(input, 'a')
	}
	input = append(input, hi, 'y', 'z')
	var dec []byte
	switch {
	case hi < 0x80:
		dec = []byte{hi}
	case ei == 1 && hi < 0xA0:
		r := zzCP1252[hi-0x80]
		zz.Assume(r != 0)
		dec = zzUTF8(r)
	default:
		dec = zzUTF8(rune(hi))
	}
	h := &zzCaptureHandler{}
	sch := &schema{name: "s", header: header.Header{ParserSettings: ps}, handler: h}
	_, err := sch.NewTransform("in", &zzChunkReader{data: input, failAt: -1}, &transformctx.Ctx{})
	zz.Assert(err == nil && h.input != nil, "reader stack builds")
	var got []byte
	buf := make([]byte, 512)
	for i := 0; i < 64; i++ {
		n, err := h.input.Read(buf)
		got = append(got, buf[:n]...)
		if err == io.EOF {
			break
		}
		zz.Assert(err == nil, "no read error")
	}
	zz.Assert(len(got) == pad+len(dec)+2, "no byte lost or duplicated at a buffer boundary")
	if len(got) == pad+len(dec)+2 {
		ok := got[pad+len(dec)] == 'y' && got[pad+len(dec)+1] == 'z'
		for i, d := range dec {
			ok = zzAndB(ok, got[pad+i] == d)
		}
		zz.Assert(ok, "the character at the boundary is decoded as the code page says")
		zz.Assert(got[0] == 'a' && got[pad-1] == 'a', "padding intact")
	}
	zz.Cover("wide")
}

func zzAndB(a, b bool) bool { return !zz.Implies(a, !b) }
