package idr

import (
	"github.com/antchfx/xmlquery"

	zz "github.com/jf-tech/omniparser/zzverif"
)

// C11: the same xpath expression evaluated by the same engine (antchfx/xpath) over the idr
// navigator and over the reference XML DOM binding (antchfx/xmlquery) selects the same
// nodes, in the same order, with the same string values. Both run as real code.

var zzC11Exprs = []string{
	"/R/T",
	"//T",
	"//x",
	"/R/*",
	"//@a",
	"//T[@a='1']",
	"//T[x='1']",
	"/R/T[1]",
	"/R/T[last()]",
	"/R/*[last()]",
	"//x/..",
	"//x/parent::T",
	"//T/following-sibling::*",
	"//T/preceding-sibling::*",
	"//x/ancestor::*",
	"//T[position()=2]",
	"//*[starts-with(name(),'T')]",
	"//T[contains(x,'1')]",
	"//T[not(@a)]",
	"/R/Q/T/x",
	"//T[x='1' and @a='2']",
	"//T[x='1' or @a='2']",
	"/R/*[self::T]",
	"//T//x",
	"//T[count(x)=1]",
	"//*[@a][x]",
	"//T[.='1']",
	"//T/descendant-or-self::*",
	"//x/ancestor-or-self::T",
	"//T[string-length(x)=1]",
	// relative and absolute paths from an inner start node
	"x",
	"T",
	".//x",
	"../*",
	"/R/T/x",
	"*[/R/T]",
	"//T[count(//x)>1]",
	"/R | x",
	// predicates on attribute steps (the context moves from one attribute to the next)
	"//@a[.='1']",
	"/R/T/@a[.='2']/..",
	"//T[@a[.='1']]/x",
	"//@*[name()='a']",
	// string literals are taken verbatim (whitespace runs, tabs)
	"//T[string-length('a  b')=4]",
	"//*[contains('p\tq', '\t')]",
	"//T[concat(x,'  ')=concat(x,'  ')][string-length(concat(x,'  '))=3]",
}

func zzRefText(n *xmlquery.Node) string { return n.InnerText() }

func C11XPathVsDOM() {
	K := zz.Param("K", 2)
	ei := zz.NondetChoice("expr", len(zzC11Exprs))
	if f := zz.Param("expr", -1); f >= 0 {
		zz.Assume(ei == f)
	}
	expr := zzC11Exprs[ei]
	doc := zzDoc(K)
	text := doc.write(nil)
	// idr side: whole document through the real stream reader
	sp, err := NewXMLStreamReader(&zzChunkReader{data: text, failAt: -1}, "/*")
	zz.Assume(err == nil)
	rootElem, err := sp.Read()
	zz.Assume(err == nil)
	// reference side
	ref, err := xmlquery.Parse(&zzChunkReader{data: append([]byte{}, text...), failAt: -1})
	zz.Assume(err == nil)
	// start node: the document, the root element, or the root element's first element child
	start, refStart := rootElem.Parent, ref
	switch zz.NondetChoice("start", 3) {
	case 1:
		start = rootElem
		refStart = ref.FirstChild
		for refStart != nil && refStart.Type != xmlquery.ElementNode {
			refStart = refStart.NextSibling
		}
	case 2:
		start = rootElem.FirstChild
		for start != nil && start.Type != ElementNode {
			start = start.NextSibling
		}
		refStart = ref.FirstChild
		for refStart != nil && refStart.Type != xmlquery.ElementNode {
			refStart = refStart.NextSibling
		}
		if refStart != nil {
			refStart = refStart.FirstChild
			for refStart != nil && refStart.Type != xmlquery.ElementNode {
				refStart = refStart.NextSibling
			}
		}
		zz.Cover("inner-start")
	}
	zz.Assume(start != nil && refStart != nil)
	got, err := MatchAll(start, expr)
	zz.Assert(err == nil, "expression compiles")
	want, err := xmlquery.QueryAll(refStart, expr)
	zz.Assume(err == nil)
	zz.Observe("counts", expr, len(got), len(want))
	zz.Assert(len(got) == len(want), "same number of nodes selected")
	for i := range got {
		if i < len(want) {
			zz.Assert(got[i].Data == want[i].Data, "same node (name) at the same position of the result")
			zz.Assert(got[i].InnerText() == want[i].InnerText(), "same string value")
			zz.Assert((got[i].Type == AttributeNode) == (want[i].Type == xmlquery.AttributeNode), "same node kind")
		}
	}
	zz.Cover("compared")
}


// C11XPathNs: the same comparison on a document with namespace prefixes: prefixed elements
// carrying unprefixed and prefixed attributes.
func C11XPathNs() {
	exprs := []string{"/R/p:T/@a", "//@a", "//p:T[@a='1']", "//*[name(@a)='a']", "/R/T/@a", "//@p:b", "//p:T/@*", "//*[@p:b]",
		// the attribute axis of an element that carries a namespace declaration: the DOM keeps it there
		"/R/@*", "//@*", "//*[count(@*)=1]", "/R/@*[1]"}
	expr := exprs[zz.NondetChoice("expr", len(exprs))]
	root := &zzX{name: "R", attrs: [][2]interface{}{{"xmlns:p", []byte("u:p")}}}
	n := 1 + zz.NondetChoice("nkids", 2)
	for i := 0; i < n; i++ {
		k := &zzX{name: "T", kids: []*zzX{zzLeafX()}}
		if zz.NondetBool("prefixed") {
			k.prefix, k.uri = "p", "u:p"
		}
		if zz.NondetBool("attrA") {
			k.attrs = append(k.attrs, [2]interface{}{"a", zzVal("av")})
		}
		if zz.NondetBool("attrPB") {
			k.attrs = append(k.attrs, [2]interface{}{"p:b", zzVal("bv")})
		}
		root.kids = append(root.kids, k)
	}
	text := root.write(nil)
	sp, err := NewXMLStreamReader(&zzChunkReader{data: text, failAt: -1}, "/*")
	zz.Assume(err == nil)
	rootElem, err := sp.Read()
	zz.Assume(err == nil)
	ref, err := xmlquery.Parse(&zzChunkReader{data: append([]byte{}, text...), failAt: -1})
	zz.Assume(err == nil)
	got, err := MatchAll(rootElem.Parent, expr)
	zz.Assert(err == nil, "expression compiles")
	want, err := xmlquery.QueryAll(ref, expr)
	zz.Assume(err == nil)
	zz.Observe("counts", expr, len(got), len(want))
	zz.Assert(len(got) == len(want), "same number of nodes selected")
	for i := range got {
		if i < len(want) {
			zz.Assert(got[i].Data == want[i].Data && got[i].InnerText() == want[i].InnerText(), "same node and string value at the same position")
		}
	}
	zz.Cover("compared")
}
